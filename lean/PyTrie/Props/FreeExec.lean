import PyTrie.Lemmas.FreeExec
import PyTrie.Lemmas.FreePartial
import PyTrie.Lemmas.FreeView
import PyTrie.Lemmas.CacheNoDupPres
import PyTrie.Lemmas.PruneBodiesV
import PyTrie.Lemmas.PruneBodiesNP
import PyTrie.Lemmas.FreeHistory
import PyTrie.Lemmas.PartialInv
import PyTrie.Lemmas.PartialInvCex
/-! # The tree-free executor (C01, C04, C06, C07 over a transcription with no tree)

`Model/HexFree.lean` is `HexaryTrie.set` / `delete` / `get` as the code runs them: the trie is a root hash and a `prune`
flag over a database; the raw-level `_set` / `_delete` (raw nodes fetched from the database) produce the node to store
and the events; `_prune_on_success`, `_prune_node`, `_set_db_value`, `_set_root_node`, `_complete_pruning` apply them.
It is run against the code after every direct operation of every hexary history of the correspondence checks (outcome,
root, full database, reference counts). Here: it computes what the tree-carrying executor of `Model/HexWorld.lean`
computes, so the theorems proved about that executor are theorems about this transcription. -/
namespace PyTrie.Props.Free
open PyTrie PyTrie.Hex PyTrie.HexD PyTrie.HexW PyTrie.HexRaw PyTrie.HexFree
open PyTrie.Props.C01 (Op run spec)

/-- one `set` / `delete`, pruning on or off, on any database that is complete for the trie's root: same exit state, same
    new root, same exception — with no run-level hypothesis (only: the blank-root hash is not a key, no body has 2^64 bytes) -/
theorem op_is_executor_op (H : Bytes → Bytes) (hlen : ∀ b, (H b).length = 32) (T : TrieSt) (hc : Canon T.tree) (key : Bytes)
    (val : Option Bytes) (s : OpSt) (hcache : s.store.cache = none) (hfa : s.store.failAfter = none)
    (hcomp : Complete (stdHashing H) (blankRoot H) s.store.base T)
    (hbk : Dict.get? s.store.base (blankRoot H) = none)
    (hsm : ∀ h b, Dict.get? s.store.base h = some b → b.length < 2 ^ 64) :
    freeSetDel H (toFree T) key val s =
      ((opSetDel (stdHashing H) (blankRoot H) T key val s).1,
       match (opSetDel (stdHashing H) (blankRoot H) T key val s).2 with
       | .ok T' => .ok (toFree T')
       | .error e => .error e) :=
  freeSetDel_is_opSetDel H hlen T hc key val s hcache hfa hcomp hbk hsm

/-- whole histories: the tree-free run reaches exactly the executor's state (database, reference counts) and root -/
theorem run_is_executor_run (H : Bytes → Bytes) (hlen : ∀ b, (H b).length = 32) (prune : Bool) (ops : List Op) (T : TrieSt) (s : OpSt)
    (h : ReachFree H prune ops T s) :
    freeRun H prune (ops.map fun o => (opKey o, opVal o))
      (⟨blankRoot H, prune⟩, { store := { base := [], cache := none, failAfter := none }, counts := [], pending := [] }) =
      .ok (toFree T, s) :=
  freeRun_is_world_run H hlen prune ops T s h

/-- `ReachFree` is `ReachOpsNC` plus the two physical side conditions at every state -/
theorem reach_free_is_reach (H : Bytes → Bytes) (prune : Bool) (ops : List Op) (T : TrieSt) (s : OpSt) (h : ReachFree H prune ops T s) :
    ReachOpsNC (stdHashing H) (blankRoot H) prune ops T s := reachFree_nc H prune ops T s h

/-- **C01 / C06 for the tree-free executor**: after any history, pruning on or off, its `get` (the raw-level reader over
    its database) returns the last value stored under the key, `b""` if none -/
theorem run_get (H : Bytes → Bytes) (hlen : ∀ b, (H b).length = 32) (prune : Bool) (ops : List Op) (T : TrieSt) (s : OpSt)
    (h : ReachFree H prune ops T s)
    (hbk : Dict.get? s.store.base (blankRoot H) = none)
    (hsm : ∀ h b, Dict.get? s.store.base h = some b → b.length < 2 ^ 64) (key : Bytes) :
    freeGet H (toFree T) key s = .ok (spec ops key) :=
  freeRun_get H hlen prune ops T s h hbk hsm key

/-- **C06 for the tree-free executor**: after any history on a pruning trie its reference counts are the true reference
    counts and its database holds exactly the live nodes, each with its encoding -/
theorem run_pruning_exact (H : Bytes → Bytes) (hlen : ∀ b, (H b).length = 32) (ops : List Op) (T : TrieSt) (s : OpSt)
    (h : ReachFree H true ops T s) :
    freeRun H true (ops.map fun o => (opKey o, opVal o))
      (⟨blankRoot H, true⟩, { store := { base := [], cache := none, failAfter := none }, counts := [], pending := [] }) =
      .ok (toFree T, s) ∧
    (∀ x, s.counts.val x = occRoot (stdHashing H) (run ops) x) ∧
    (∀ x, Dict.contains s.store.base x = true ↔ 0 < occRoot (stdHashing H) (run ops) x) ∧
    Complete (stdHashing H) (blankRoot H) s.store.base T := by
  have hnc := reachFree_nc H true ops T s h
  have hr := reachOpsNC_reachOps _ _ true ops T s hnc
  obtain ⟨htree, _, _, _, hdb⟩ := reachOps_inv _ _ true ops T s hr
  simp only [if_true] at hdb
  refine ⟨freeRun_is_world_run H hlen true ops T s h, ?_, ?_, reachOpsNC_complete _ _ true ops T s hnc⟩
  · intro x; rw [← htree]; exact hdb.counts x
  · intro x; rw [← htree]; exact hdb.keys x

end PyTrie.Props.Free

/-! ## The tree-free executor on incomplete databases (C07) -/
namespace PyTrie.Props.Free
open PyTrie PyTrie.Hex PyTrie.HexD PyTrie.HexW PyTrie.HexRaw PyTrie.HexFree

/-- on ANY partial database (whatever is stored under a node's hash is its encoding) the tree-free `set` / `delete`
    returns the exit state, root and exception of the tree-carrying executor — pruning on or off -/
theorem op_partial (H : Bytes → Bytes) (hlen : ∀ b, (H b).length = 32) (T : TrieSt) (hc : Canon T.tree) (key : Bytes)
    (val : Option Bytes) (s : OpSt) (hcache : s.store.cache = none)
    (hroot : RootPartial H s.store.base T.root T.tree) (hst : PartialD H s.store.base T.tree) :
    freeSetDel H (toFree T) key val s =
      ((opSetDel (stdHashing H) (blankRoot H) T key val s).1,
       match (opSetDel (stdHashing H) (blankRoot H) T key val s).2 with
       | .ok T' => .ok (toFree T')
       | .error e => .error e) :=
  freeSetDel_partial H hlen T hc key val s hcache hroot hst

/-- **a tree-free `set` / `delete` that raises `MissingTrieNode`**: the whole store (database, failure counter) and the
    reference counts are what they were, no pending prune mark is left, the hash it names is absent and is the root's, a
    hashed subtree on the key's path, or the sibling a delete must read to collapse a branch -/
theorem op_missing_atomic (H : Bytes → Bytes) (hlen : ∀ b, (H b).length = 32) (T : TrieSt) (hc : Canon T.tree) (key : Bytes)
    (val : Option Bytes) (s : OpSt) (hcache : s.store.cache = none)
    (hroot : RootPartial H s.store.base T.root T.tree) (hst : PartialD H s.store.base T.tree)
    (hrs : RefSound (stdHashing H) T.tree (nibs key))
    (h root rk : Bytes) (pre : Option Path)
    (he : (freeSetDel H (toFree T) key val s).2 = .error (.missingTrieNode h root rk pre)) :
    (freeSetDel H (toFree T) key val s).1.store = s.store ∧ (freeSetDel H (toFree T) key val s).1.counts = s.counts ∧
    (freeSetDel H (toFree T) key val s).1.pending = [] ∧
    s.store.contains h = false ∧
    (h = T.root ∨ OnPath (stdHashing H) T.tree (nibs key) h ∨ SiblingOnPath (stdHashing H) T.tree (nibs key) h) :=
  freeSetDel_missing_atomic H hlen T hc key val s hcache hroot hst hrs h root rk pre he

end PyTrie.Props.Free

/-! ## The tree-free executor over a `ScratchDB`, and the tree-free world in lockstep with the tree-carrying one (C05)

`storeDb st` is what a trie can read through its database object (the buffered writes of a `ScratchDB` in front of the
wrapped dict; a buffered *delete* reads through). `FWorld` is `squash_changes` without trees. `Sim fw w`: same database,
one outer trie with the same root / prune flag / counts, the same open block (cache, batch root, batch counts). Two
specification subtleties were machine-found while proving this: the view only agrees with `ScratchDB.__contains__` /
`__getitem__` when the cache has unique keys (true of every cache built by writes; `CacheNoDup`, preserved by every
executor step: `Lemmas/CacheNoDupPres.lean`), and the world must *have* a counts slot for its trie. -/
namespace PyTrie.Props.Free
open PyTrie PyTrie.Hex PyTrie.HexD PyTrie.HexW PyTrie.HexRaw PyTrie.HexFree

/-- one `set` / `delete` over any store — plain dict or `ScratchDB` — whose view is complete for the trie's root -/
theorem op_is_executor_op_view (H : Bytes → Bytes) (hlen : ∀ b, (H b).length = 32) (T : TrieSt) (hc : Canon T.tree) (key : Bytes)
    (val : Option Bytes) (s : OpSt) (hnd : s.store.CacheNoDup)
    (hcomp : Complete (stdHashing H) (blankRoot H) (storeDb s.store) T)
    (hbk : Dict.get? (storeDb s.store) (blankRoot H) = none)
    (hsm : ∀ h b, Dict.get? (storeDb s.store) h = some b → b.length < 2 ^ 64) :
    freeSetDel H (toFree T) key val s =
      ((opSetDel (stdHashing H) (blankRoot H) T key val s).1,
       match (opSetDel (stdHashing H) (blankRoot H) T key val s).2 with
       | .ok T' => .ok (toFree T')
       | .error e => .error e) :=
  freeSetDel_is_opSetDel_view H hlen T hc key val s hnd hcomp hbk hsm

/-- reading through the database object is looking up the view (unique cache keys) — and not otherwise -/
theorem view_is_what_is_read (st : Store) (hnd : st.CacheNoDup) (h : Hash) : lookup (storeDb st) h = st.get? h :=
  lookup_storeDb st h hnd

/-- entering a block keeps the two worlds in step -/
theorem lockstep_begin (fw : FWorld) (w : World) (h : Sim fw w) (hb : w.batch = none) : Sim fw.batchBegin (w.batchBegin 0) :=
  sim_batchBegin fw w h hb

/-- leaving a block — normally, by an exception, or with a failing commit — gives the same outcome and keeps them in step -/
theorem lockstep_end (fw : FWorld) (w : World) (h : Sim fw w) (raised : Bool) :
    (fw.batchEnd raised).1 = (w.batchEnd raised).1 ∧ Sim (fw.batchEnd raised).2 (w.batchEnd raised).2 :=
  sim_batchEnd fw w h raised

/-- an operation on the outer trie keeps them in step (same outcome / exception) -/
theorem lockstep_op_outer (H : Bytes → Bytes) (hlen : ∀ b, (H b).length = 32) (fw : FWorld) (w : World) (h : Sim fw w) (key : Bytes)
    (val : Option Bytes) (hc : Canon w.tries[0]!.tree)
    (hcomp : Complete (stdHashing H) (blankRoot H) (storeDb (w.opSt 0).store) w.tries[0]!)
    (hbk : Dict.get? (storeDb (w.opSt 0).store) (blankRoot H) = none)
    (hsm : ∀ x b, Dict.get? (storeDb (w.opSt 0).store) x = some b → b.length < 2 ^ 64) :
    (match (fw.setDel H false key val).1, (w.setDel (stdHashing H) (blankRoot H) (.trie 0) key val).1 with
     | .ok _, .ok _ => True
     | .error e, .error e' => e = e'
     | _, _ => False) ∧
    Sim (fw.setDel H false key val).2 (w.setDel (stdHashing H) (blankRoot H) (.trie 0) key val).2 :=
  sim_setDel_outer H hlen fw w h key val hc hcomp hbk hsm

/-- an operation on the batch trie of the open block keeps them in step -/
theorem lockstep_op_batch (H : Bytes → Bytes) (hlen : ∀ b, (H b).length = 32) (fw : FWorld) (w : World) (h : Sim fw w) (b : Batch)
    (hwb : w.batch = some b) (hnd : NoDupKeys b.cache) (key : Bytes) (val : Option Bytes) (hc : Canon b.trie.tree)
    (hcomp : Complete (stdHashing H) (blankRoot H) (storeDb (w.batchOpSt b).store) b.trie)
    (hbk : Dict.get? (storeDb (w.batchOpSt b).store) (blankRoot H) = none)
    (hsm : ∀ x b', Dict.get? (storeDb (w.batchOpSt b).store) x = some b' → b'.length < 2 ^ 64) :
    (match (fw.setDel H true key val).1, (w.setDel (stdHashing H) (blankRoot H) .batch key val).1 with
     | .ok _, .ok _ => True
     | .error e, .error e' => e = e'
     | _, _ => False) ∧
    Sim (fw.setDel H true key val).2 (w.setDel (stdHashing H) (blankRoot H) .batch key val).2 :=
  sim_setDel_batch H hlen fw w h b hwb hnd key val hc hcomp hbk hsm

/-- the cache of the open block keeps unique keys through every step of the world -/
theorem cache_keys_unique_begin (w : World) (i : Nat) : (w.batchBegin i).BatchNoDup := World.batchNoDup_batchBegin w i

theorem cache_keys_unique_op (Hs : Hashing) (blankRootHash : Hash) (w : World) (tg : Target) (key : Bytes) (val : Option Bytes)
    (h : w.BatchNoDup) : (w.setDel Hs blankRootHash tg key val).2.BatchNoDup :=
  World.batchNoDup_setDel Hs blankRootHash w tg key val h

end PyTrie.Props.Free

/-! ## The view stays complete through a block on a pruning trie

These discharge the completeness hypothesis of the lockstep theorems along `squash_changes` on a pruning trie: on entry
the batch trie reads the outer database; every batch operation keeps what it reads complete for its new root (run-level
no-collision predicate over the view); a successful commit leaves the outer database complete for the new outer root. -/
namespace PyTrie.Props.Free
open PyTrie PyTrie.Hex PyTrie.HexW PyTrie.HexFree

theorem view_complete_on_entry (Hs : Hashing) (blankRootHash : Hash) (w : World) (i : Nat) (hnb : w.batch = none)
    (hcomp : Complete Hs blankRootHash w.base (w.tries[i]!)) :
    ∃ b, (w.batchBegin i).batch = some b ∧
      Complete Hs blankRootHash (storeDb ((w.batchBegin i).batchOpSt b).store) b.trie :=
  batchBegin_complete Hs blankRootHash w i hnb hcomp

theorem view_complete_batch_op (Hs : Hashing) (blankRootHash : Hash) (T : TrieSt) (hc : Canon T.tree) (key : Bytes)
    (val : Option Bytes) (s : OpSt) (hfa : s.store.failAfter = none) (hinv : PruneInvV Hs blankRootHash T s)
    (hcomp : Complete Hs blankRootHash (storeDb s.store) T) (hrs : RefSound Hs T.tree (nibs key))
    (hnc : NoClobber (storeDb s.store) (opWrites Hs T key val))
    (hblank : isBlank (opTree Hs T key val).1 = false → Hs.hashOf (opTree Hs T key val).1 ≠ blankRootHash)
    (T' : TrieSt) (hok : (opSetDel Hs blankRootHash T key val s).2 = .ok T') :
    Complete Hs blankRootHash (storeDb (opSetDel Hs blankRootHash T key val s).1.store) T' :=
  opSetDel_prune_complete_view Hs blankRootHash T hc key val s hfa hinv hcomp hrs hnc hblank T' hok

theorem complete_after_commit (Hs : Hashing) (blankRootHash : Hash) (w : World) (b : Batch) (hb : w.batch = some b)
    (hi : b.outer < w.tries.size) (hic : b.outer < w.counts.size)
    (hop : (w.tries[b.outer]!).prune = true) (hfa : w.failAfter = none)
    (hinv : PruneInvV Hs blankRootHash b.trie (w.batchOpSt b))
    (hcomp : Complete Hs blankRootHash (storeDb (w.batchOpSt b).store) b.trie) :
    Complete Hs blankRootHash (w.batchEnd false).2.base ((w.batchEnd false).2.tries[b.outer]!) :=
  batchEnd_complete Hs blankRootHash w b hb hi hic hop hfa hinv hcomp

end PyTrie.Props.Free

/-! ## … and through a block on a NON-pruning trie

The batch trie of a non-pruning outer trie may buffer a delete for a node that is still referenced (its counts start empty
over a non-empty database); `ScratchDB.__getitem__` reads through a buffered delete, so the node stays readable, with the
right body because a buffered write of a key the wrapped database holds carries the same body (`CacheConsistent`). -/
namespace PyTrie.Props.Free
open PyTrie PyTrie.Hex PyTrie.HexW PyTrie.HexFree

theorem np_cache_consistent_on_entry (base : Dict Bytes) (fa : Option Nat) :
    CacheConsistent { base := base, cache := some [], failAfter := fa } := cacheConsistent_begin base fa

theorem np_view_complete_batch_op (Hs : Hashing) (blankRootHash : Hash) (base0 : Dict Bytes) (T : TrieSt) (hc : Canon T.tree)
    (key : Bytes) (val : Option Bytes) (s : OpSt) (hinv : BatchInvNP Hs blankRootHash base0 T s) (hcons : CacheConsistent s.store)
    (hcomp : Complete Hs blankRootHash (storeDb s.store) T) (hrs : RefSound Hs T.tree (nibs key))
    (hnc : NoClobber (storeDb s.store) (opWrites Hs T key val))
    (hblank : isBlank (opTree Hs T key val).1 = false → Hs.hashOf (opTree Hs T key val).1 ≠ blankRootHash)
    (T' : TrieSt) (hok : (opSetDel Hs blankRootHash T key val s).2 = .ok T') :
    Complete Hs blankRootHash (storeDb (opSetDel Hs blankRootHash T key val s).1.store) T' ∧
    CacheConsistent (opSetDel Hs blankRootHash T key val s).1.store :=
  opSetDel_np_complete_view Hs blankRootHash base0 T hc key val s hinv hcons hcomp hrs hnc hblank T' hok

/-- the commit of a block on a non-pruning trie pushes no deletes: the database is complete for the new root and keeps
    every binding it had (C04 through `squash_changes`, with bodies) -/
theorem np_complete_after_commit (Hs : Hashing) (blankRootHash : Hash) (base0 : Dict Bytes) (T : TrieSt) (s : OpSt)
    (hinv : BatchInvNP Hs blankRootHash base0 T s) (hcons : CacheConsistent s.store) (c : Dict (Option Bytes))
    (hcache : s.store.cache = some c) (hcomp : Complete Hs blankRootHash (storeDb s.store) T) :
    Complete Hs blankRootHash (commitLoop false c base0 none).2.1 { T with prune := false } ∧
    Preserved base0 (commitLoop false c base0 none).2.1 :=
  commit_np_complete Hs blankRootHash base0 T s hinv hcons c hcache hcomp

end PyTrie.Props.Free

/-! ## Whole histories with `squash_changes` blocks

`HStep` = a direct `set` / `delete`, or a block (calls on the batch trie, left normally or by an exception). `runW` runs a
history in the tree-carrying `World`, `runF` in the tree-free `FWorld`. `Good` is the conjunction, along the run, of the
run-level premises of every call executed (no hash collision among the data the call touches, the two physical side
conditions on what it reads, the call returns normally). -/
namespace PyTrie.Props.Free
open PyTrie PyTrie.Hex PyTrie.HexW PyTrie.HexFree

/-- **the tree-free world and the tree-carrying world return the same outcome for every call of every history — direct
    operations, blocks left normally or by an exception, pruning on or off — and end in the same database, root and
    reference counts** -/
theorem history_lockstep (H : Bytes → Bytes) (hlen : ∀ b, (H b).length = 32) (prune : Bool) (steps : List HStep)
    (hgood : Good H (freshW H prune) steps) :
    (runF H (FWorld.init H prune) steps).1 = (runW H (freshW H prune) steps).1 ∧
    Sim (runF H (FWorld.init H prune) steps).2 (runW H (freshW H prune) steps).2 :=
  lockstep_history H hlen prune steps hgood

end PyTrie.Props.Free

/-! ## Partial consistency is an invariant (C07 over histories with withheld node bodies)

`RootPartial` / `PartialD`: whatever the database holds under the hash of the root / of a hashed subtree is that node's
encoding (it may hold nothing). True of every complete database, kept by removing entries, by supplying the body of a
node of the tree, and by every `set` / `delete` — returning or raising, pruning on or off. With `Free.op_partial` (the
tree-free executor equals the tree-carrying one on every partially consistent state) the two executors therefore stay
equal along every history of operations interleaved with removals and re-insertions of node bodies. Two statements first
tried were machine-refuted (`Lemmas/PartialInvCex.lean`): supplying a body needs the tree to be canonical (the child of an
empty-path extension is unreachable by `nodeAt`), and an operation needs its writes to be consistent also with the
*withheld* nodes of the old tree (`hold`) — `NoClobber` cannot see a node whose body is not there. -/
namespace PyTrie.Props.Free
open PyTrie PyTrie.Hex PyTrie.HexD PyTrie.HexW PyTrie.HexRaw PyTrie.HexFree

theorem partial_of_complete_db (H : Bytes → Bytes) (T : TrieSt) (d : Dict Bytes)
    (hcomp : Complete (stdHashing H) (blankRoot H) d T)
    (hbk : Dict.get? d (blankRoot H) = none) (hsm : ∀ h b, Dict.get? d h = some b → b.length < 2 ^ 64) :
    RootPartial H d T.root T.tree ∧ PartialD H d T.tree := partial_of_complete H T d hcomp hbk hsm

theorem partial_kept_by_withholding (H : Bytes → Bytes) (T : TrieSt) (d : Dict Bytes) (h : Hash)
    (hp : RootPartial H d T.root T.tree ∧ PartialD H d T.tree) :
    RootPartial H (Dict.erase d h) T.root T.tree ∧ PartialD H (Dict.erase d h) T.tree := partial_erase H T d h hp

theorem partial_kept_by_supplying (H : Bytes → Bytes) (T : TrieSt) (hc : Canon T.tree) (d : Dict Bytes) (n : Node)
    (hp : RootPartial H d T.root T.tree ∧ PartialD H d T.tree)
    (hnc : ∀ m : Node, hashOf H m = hashOf H n → (m = T.tree ∨ ∃ q, nodeAt T.tree q = some m) → enc H m = enc H n) :
    RootPartial H (Dict.insert d (hashOf H n) (enc H n)) T.root T.tree ∧
    PartialD H (Dict.insert d (hashOf H n) (enc H n)) T.tree := partial_insert_node H T hc d n hp hnc

theorem partial_kept_by_op (H : Bytes → Bytes) (hlen : ∀ b, (H b).length = 32) (T : TrieSt) (hc : Canon T.tree) (key : Bytes)
    (val : Option Bytes) (s : OpSt) (hcache : s.store.cache = none)
    (hroot : RootPartial H s.store.base T.root T.tree) (hst : PartialD H s.store.base T.tree)
    (hrs : RefSound (stdHashing H) T.tree (nibs key))
    (hnc : NoClobber s.store.base (opWrites (stdHashing H) T key val))
    (hold : ∀ (m : Node) (b : Bytes), (hashOf H m, b) ∈ opWrites (stdHashing H) T key val →
      (m = T.tree ∨ (isHashed H m = true ∧ ∃ q, nodeAt T.tree q = some m)) → b = enc H m)
    (hblank : isBlank (opTree (stdHashing H) T key val).1 = false → hashOf H (opTree (stdHashing H) T key val).1 ≠ blankRoot H)
    (hbk : ∀ h b, (h, b) ∈ opWrites (stdHashing H) T key val → h ≠ blankRoot H)
    (hsm : ∀ h b, (h, b) ∈ opWrites (stdHashing H) T key val → b.length < 2 ^ 64) :
    (match (opSetDel (stdHashing H) (blankRoot H) T key val s).2 with
     | .ok T' => RootPartial H (opSetDel (stdHashing H) (blankRoot H) T key val s).1.store.base T'.root T'.tree ∧
                 PartialD H (opSetDel (stdHashing H) (blankRoot H) T key val s).1.store.base T'.tree
     | .error _ => RootPartial H (opSetDel (stdHashing H) (blankRoot H) T key val s).1.store.base T.root T.tree ∧
                   PartialD H (opSetDel (stdHashing H) (blankRoot H) T key val s).1.store.base T.tree) :=
  opSetDel_partial_preserved H hlen T hc key val s hcache hroot hst hrs hnc hold hblank hbk hsm

end PyTrie.Props.Free
