import PyTrie.Lemmas.MissingProofs
import PyTrie.Lemmas.MissingPath
import PyTrie.Lemmas.RawPartial
import PyTrie.Lemmas.ReadPartial
import PyTrie.Lemmas.RawAtomic
/-! # C07 — missing nodes: operations fail atomically and report the truth

`opGet`, `opTraverse`, `opSetDel` are `get`, `traverse`/`traverse_from`, `set`/`delete` over a store
from which any subset of node bodies may be absent (`Store.contains`). All statements hold for every
store, i.e. for every subset of missing nodes, plain or behind a ScratchDB cache (inside
`squash_changes`), pruning or not. -/
namespace PyTrie.Props.C07
open PyTrie PyTrie.Hex PyTrie.HexW

/-- every node a traversal fetches is a hashed subtree sitting at the reported nibble prefix, a prefix
    of the requested path -/
theorem fetches_on_path (Hs : Hashing) (t : Node) (hc : Canon t) (k pre : Path) (h : Hash) (used : Path)
    (hm : (h, used) ∈ traverseReads Hs t k pre) :
    ∃ q n, used = pre ++ q ∧ q <+: k ∧ q ≠ [] ∧ nodeAt t q = some n ∧ Hs.hashed n = true ∧ Hs.hashOf n = h :=
  traverseReads_on_path Hs t hc k pre h used hm

/-- `get` reports the truth: the hash is absent, the root and key fields are the request's, and the
    hash is the root's or that of the hashed subtree at the reported prefix of the key -/
theorem get_missing_truthful (Hs : Hashing) (blankRootHash : Hash) (T : TrieSt) (hc : Canon T.tree) (key : Bytes)
    (s : OpSt) (h root rk : Bytes) (pre : Option Path)
    (he : opGet Hs blankRootHash T key s = .error (.missingTrieNode h root rk pre)) :
    s.store.contains h = false ∧ root = T.root ∧ rk = key ∧
    ((h = T.root ∧ pre = some []) ∨
     ∃ q n, pre = some q ∧ q <+: nibs key ∧ nodeAt T.tree q = some n ∧ Hs.hashed n = true ∧ Hs.hashOf n = h) :=
  opGet_missing_truthful Hs blankRootHash T hc key s h root rk pre he

/-- a lookup raises nothing but `MissingTrieNode` … -/
theorem get_error_kind (Hs : Hashing) (blankRootHash : Hash) (T : TrieSt) (hc : Canon T.tree) (key : Bytes)
    (s : OpSt) (e : Exn) (he : opGet Hs blankRootHash T key s = .error e) :
    ∃ h root rk pre, e = .missingTrieNode h root rk pre := opGet_error_kind Hs blankRootHash T hc key s e he

/-- … and when it does not raise it returns the same value as on the complete database -/
theorem get_same_or_missing (Hs : Hashing) (blankRootHash : Hash) (T : TrieSt) (hc : Canon T.tree) (key : Bytes)
    (s : OpSt) (v : Bytes) (he : opGet Hs blankRootHash T key s = .ok v) : v = Hex.get T.tree (nibs key) :=
  opGet_ok Hs blankRootHash T hc key s v he

/-- `traverse` / `traverse_from`: the complete-database result, or a truthful `MissingTraversalNode`
    (prefix relative to the start node) -/
theorem traverse_truthful (Hs : Hashing) (blankRootHash : Hash) (root? : Option Hash) (t : Node) (hc : Canon t)
    (p : Path) (s : Store) :
    (∀ out, opTraverse Hs blankRootHash root? t p s = .ok out → out = traverseOut t p) ∧
    (∀ e, opTraverse Hs blankRootHash root? t p s = .error e →
      ∃ h used, e = .missingTraversalNode h used ∧ s.contains h = false ∧
        ((root? = some h ∧ used = []) ∨
         ∃ n, used <+: p ∧ nodeAt t used = some n ∧ Hs.hashed n = true ∧ Hs.hashOf n = h)) :=
  opTraverse_truthful Hs blankRootHash root? t hc p s

/-- **retry converges**: after supplying the reported node the same lookup never names that hash
    again, strictly fewer path fetches are outstanding, and nothing that was present disappears — so
    each hash is asked for at most once and at most `1 + #path nodes` attempts are needed -/
theorem get_retry_progress (Hs : Hashing) (blankRootHash : Hash) (T : TrieSt) (key : Bytes) (s : OpSt)
    (h root rk : Bytes) (pre : Option Path) (body : Bytes)
    (he : opGet Hs blankRootHash T key s = .error (.missingTrieNode h root rk pre)) :
    let s' : OpSt := { s with store := { s.store with base := Dict.insert s.store.base h body } }
    (∀ root' rk' pre', opGet Hs blankRootHash T key s' ≠ .error (.missingTrieNode h root' rk' pre')) ∧
    (h = T.root ∨ (outstanding Hs T key s'.store).length < (outstanding Hs T key s.store).length) ∧
    (∀ x, s.store.contains x = true → s'.store.contains x = true) :=
  opGet_retry_progress_gen Hs blankRootHash T key s h root rk pre body he

/-- in the database traffic of `_set` and `_delete` no fetch follows a write -/
theorem set_reads_before_writes (Hs : Hashing) (t : Node) (k : Path) (v : Bytes) : ReadsFirst (setE Hs t k v).2 :=
  setE_readsFirst Hs t k v

theorem delete_reads_before_writes (Hs : Hashing) (t : Node) (k : Path) : ReadsFirst (deleteE Hs t k).2 :=
  deleteE_readsFirst_gen Hs t k

/-- **failure is atomic**: when `set`/`delete` raises `MissingTrieNode` the database, the scratch cache,
    the reference counts and the pending prunes are as before the call; the report names an absent
    hash, the trie's root and the requested key -/
theorem set_delete_missing_atomic (Hs : Hashing) (blankRootHash : Hash) (T : TrieSt) (hc : Canon T.tree)
    (key : Bytes) (val : Option Bytes) (s : OpSt) (hrs : RefSound Hs T.tree (nibs key))
    (h root rk : Bytes) (pre : Option Path)
    (he : (opSetDel Hs blankRootHash T key val s).2 = .error (.missingTrieNode h root rk pre)) :
    (opSetDel Hs blankRootHash T key val s).1.store.base = s.store.base ∧
    (opSetDel Hs blankRootHash T key val s).1.store.cache = s.store.cache ∧
    (opSetDel Hs blankRootHash T key val s).1.counts = s.counts ∧
    (opSetDel Hs blankRootHash T key val s).1.pending = [] ∧
    s.store.contains h = false ∧ root = T.root ∧ rk = key :=
  opSetDel_missing_atomic Hs blankRootHash T hc key val s hrs h root rk pre he

/-- every fetch of `_set` is a hashed subtree at a prefix of the key; every fetch of `_delete` is that or
    the sibling `_normalize_branch_node` must read to collapse a branch on the key's path -/
theorem set_reads_on_path (Hs : Hashing) (t : Node) (hc : Canon t) (k : Path) (v : Bytes) (h : Hash)
    (hm : Ev.read h ∈ (setE Hs t k v).2) : OnPath Hs t k h := setE_reads_on_path Hs t hc k v h hm

theorem delete_reads_on_path (Hs : Hashing) (t : Node) (hc : Canon t) (k : Path) (h : Hash)
    (hm : Ev.read h ∈ (deleteE Hs t k).2) : OnPath Hs t k h ∨ SiblingOnPath Hs t k h :=
  deleteE_reads_on_path Hs t hc k h hm

/-- **the node reported by a failing `set` / `delete` lies on the requested path** (root, a hashed subtree
    at a prefix of the key, or — delete — the sibling needed to collapse a branch on that path) -/
theorem set_delete_missing_on_path (Hs : Hashing) (blankRootHash : Hash) (T : TrieSt) (hc : Canon T.tree) (key : Bytes)
    (val : Option Bytes) (s : OpSt) (h root rk : Bytes) (pre : Option Path)
    (he : (opSetDel Hs blankRootHash T key val s).2 = .error (.missingTrieNode h root rk pre)) :
    h = T.root ∨ OnPath Hs T.tree (nibs key) h ∨ SiblingOnPath Hs T.tree (nibs key) h :=
  opSetDel_missing_on_path Hs blankRootHash T hc key val s h root rk pre he

/-- **retry converges for `set` / `delete` too**: after supplying the reported node the same call never
    names that hash again and strictly fewer of its fetches are outstanding -/
theorem set_delete_retry_progress (Hs : Hashing) (blankRootHash : Hash) (T : TrieSt) (key : Bytes) (val : Option Bytes)
    (s : OpSt) (h root rk : Bytes) (pre : Option Path) (body : Bytes)
    (he : (opSetDel Hs blankRootHash T key val s).2 = .error (.missingTrieNode h root rk pre)) :
    let s' : OpSt := { s with store := { s.store with base := Dict.insert s.store.base h body } }
    (∀ root' rk' pre', (opSetDel Hs blankRootHash T key val s').2 ≠ .error (.missingTrieNode h root' rk' pre')) ∧
    (h = T.root ∨ (outstandingOp Hs T key val s'.store).length < (outstandingOp Hs T key val s.store).length) :=
  opSetDel_retry_progress Hs blankRootHash T key val s h root rk pre body he

end PyTrie.Props.C07

/-! ## Raw level: `_set` / `_delete` as written, on incomplete databases

`Model/HexRaw.lean` is the statement-by-statement transcription of the write path over raw nodes and a database of rlp
bytes (run against the code, also with node bodies removed). `PartialD H db t`: whatever the database holds under the hash
of a hashed subtree of `t` is its encoding. The theorems: the raw-level functions find every node they fetch and then
return exactly what they return on the complete database, or stop at the **first** fetch the database cannot answer; a
reported hash is absent and lies on the requested path (for delete: or is the sibling a normalisation reads). -/
namespace PyTrie.Props.C07
open PyTrie PyTrie.Hex PyTrie.HexD PyTrie.HexRaw
open PyTrie.HexW (OnPath SiblingOnPath)

theorem raw_set_partial (H : Bytes → Bytes) (hlen : ∀ b, (H b).length = 32) (t : Node) (hc : Canon t) (k : Path) (v : Bytes)
    (st : HexRaw.St) (hst : PartialD H st.db t) (fuel : Nat) (hf : 2 * k.length + 2 ≤ fuel) :
    rawSet H fuel st (toItem H t) k v =
      match firstMissing st.db (setE (stdHashing H) t k v).2 with
      | some h => .error (.missing h)
      | none => .ok (toItem H (setE (stdHashing H) t k v).1,
          { db := applyPersists st.db (setE (stdHashing H) t k v).2, evs := st.evs ++ (setE (stdHashing H) t k v).2 }) :=
  rawSet_partial H hlen t hc k v st hst fuel hf

theorem raw_delete_partial (H : Bytes → Bytes) (hlen : ∀ b, (H b).length = 32) (t : Node) (hc : Canon t) (k : Path)
    (st : HexRaw.St) (hst : PartialD H st.db t) (fuel : Nat) (hf : 2 * k.length + 2 ≤ fuel) :
    rawDelete H fuel st (toItem H t) k =
      match firstMissing st.db (deleteE (stdHashing H) t k).2 with
      | some h => .error (.missing h)
      | none => .ok (toItem H (deleteE (stdHashing H) t k).1,
          { db := applyPersists st.db (deleteE (stdHashing H) t k).2, evs := st.evs ++ (deleteE (stdHashing H) t k).2 }) :=
  rawDelete_partial H hlen t hc k st hst fuel hf

theorem raw_set_missing_on_path (H : Bytes → Bytes) (hlen : ∀ b, (H b).length = 32) (t : Node) (hc : Canon t) (k : Path) (v : Bytes)
    (st : HexRaw.St) (hst : PartialD H st.db t) (fuel : Nat) (hf : 2 * k.length + 2 ≤ fuel) (h : Hash)
    (he : rawSet H fuel st (toItem H t) k v = .error (.missing h)) :
    lookup st.db h = none ∧ OnPath (stdHashing H) t k h :=
  rawSet_missing_on_path H hlen t hc k v st hst fuel hf h he

theorem raw_delete_missing_on_path (H : Bytes → Bytes) (hlen : ∀ b, (H b).length = 32) (t : Node) (hc : Canon t) (k : Path)
    (st : HexRaw.St) (hst : PartialD H st.db t) (fuel : Nat) (hf : 2 * k.length + 2 ≤ fuel) (h : Hash)
    (he : rawDelete H fuel st (toItem H t) k = .error (.missing h)) :
    lookup st.db h = none ∧ (OnPath (stdHashing H) t k h ∨ SiblingOnPath (stdHashing H) t k h) :=
  rawDelete_missing_on_path H hlen t hc k st hst fuel hf h he

end PyTrie.Props.C07

/-! ## Raw level: lookups and traversals on incomplete databases

`traverseD` / `traverseOutD` / `getD` are `_traverse_from`, `traverse`/`traverse_from` and `get` over rlp-decoded nodes
fetched from the database (run against the code on the damaged databases of this check). `firstMissingRead` is the
first hashed node on the requested path — with the nibbles consumed to reach it — that the database cannot answer:
exactly what the executor's `opGet` / `opTraverse` report, so `get_missing_truthful`, `traverse_truthful` etc. are
statements about this transcription. -/
namespace PyTrie.Props.C07
open PyTrie PyTrie.Hex PyTrie.HexD PyTrie.HexRaw

theorem raw_traverse_partial (H : Bytes → Bytes) (hlen : ∀ b, (H b).length = 32) (db : Db) (t : Node) (hc : Canon t)
    (hst : PartialD H db t) (p : Path) (fuel : Nat) (hf : p.length < fuel) :
    traverseOutD H db fuel (toItem H t) p =
      match firstMissingRead H db t p [] with
      | some (h, pre) => .error (.missing h pre)
      | none => .ok (TravOut.toD H (traverseOut t p)) :=
  traverseOutD_partial H hlen db t hc hst p fuel hf

theorem raw_get_partial (H : Bytes → Bytes) (hlen : ∀ b, (H b).length = 32) (db : Db) (root : Hash) (t : Node) (hc : Canon t)
    (hroot : RootPartial H db root t) (hst : PartialD H db t) (k : Path) :
    getD H db root k =
      if isBlank t = false ∧ lookup db root = none then .error (.missing root [])
      else match firstMissingRead H db t k [] with
        | some (h, pre) => .error (.missing h pre)
        | none => .ok (Hex.get t k) :=
  getD_partial H hlen db root t hc hroot hst k

end PyTrie.Props.C07

/-! ## Raw level: a failed call has written nothing

`Model/HexRawT.lean` is the raw-level write path returning the state also when an exception leaves it (the Python
mutates `self.db` in place; `Model/HexRaw.lean` drops the state on an exception). The two agree on every input, and
**for every input whatsoever** — any raw node, any database, any key — a `_set` / `_delete` / `set` / `delete` that
stops at a missing node leaves the database exactly as it was; only fetches and prune marks were recorded. -/
namespace PyTrie.Props.C07
open PyTrie PyTrie.Hex PyTrie.HexD PyTrie.HexRaw PyTrie.HexRawT

theorem rawT_set_agrees (H : Bytes → Bytes) (fuel : Nat) (st : HexRaw.St) (node : Item) (key : Path) (value : Bytes) :
    rawSet H fuel st node key value = forget (rawSetT H fuel st node key value) := rawSetT_agrees H fuel st node key value

theorem rawT_delete_agrees (H : Bytes → Bytes) (fuel : Nat) (st : HexRaw.St) (node : Item) (key : Path) :
    rawDelete H fuel st node key = forget (rawDeleteT H fuel st node key) := rawDeleteT_agrees H fuel st node key

theorem rawT_op_agrees (H : Bytes → Bytes) (db : Db) (root : Hash) (key : Bytes) (value : Option Bytes) :
    rawOp H db root key value =
      (match rawOpT H db root key value with
       | (st, .ok h) => .ok (h, st)
       | (_, .error e) => .error e) := rawOpT_agrees H db root key value

/-- a failing `_set` wrote nothing: same database, only non-persist events added (every input) -/
theorem raw_failed_set_writes_nothing (H : Bytes → Bytes) (h : Hash) (fuel : Nat) (st : HexRaw.St) (node : Item) (key : Path)
    (value : Bytes) (he : (rawSetT H fuel st node key value).2 = .error (.missing h)) :
    Quiet st (rawSetT H fuel st node key value).1 := (set_atomic_both H h fuel).1 st node key value he

/-- a failing `_delete` wrote nothing (every input; hashes are 32 bytes long) -/
theorem raw_failed_delete_writes_nothing (H : Bytes → Bytes) (hlen : ∀ b, (H b).length = 32) (h : Hash) (fuel : Nat)
    (st : HexRaw.St) (node : Item) (key : Path) (he : (rawDeleteT H fuel st node key).2 = .error (.missing h)) :
    Quiet st (rawDeleteT H fuel st node key).1 := delete_atomic_gen H hlen h fuel st node key (Or.inl he)

/-- **`set` / `delete` end to end: a call that stops at a missing node leaves the database exactly as it was** -/
theorem raw_failed_op_leaves_db (H : Bytes → Bytes) (hlen : ∀ b, (H b).length = 32) (db : Db) (root : Hash) (key : Bytes)
    (value : Option Bytes) (h : Hash) (he : (rawOpT H db root key value).2 = .error (.missing h)) :
    (rawOpT H db root key value).1.db = db := rawOpT_atomic_gen H hlen db root key value h he

end PyTrie.Props.C07
