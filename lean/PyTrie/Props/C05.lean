import PyTrie.Model.HexWorld
/-! # C05 — squash_changes is all-or-nothing (world level)

Statements about the world executor of `Model/HexWorld.lean` (`batchBegin`, operations on the
batch trie, `batchEnd`), for every hashing and every world. -/
namespace PyTrie.Props.C05
open PyTrie PyTrie.Hex PyTrie.HexW

variable (Hs : Hashing) (blankRootHash : Hash)

/-- a write through a ScratchDB leaves the wrapped database alone -/
theorem write_cache_base (s : Store) (c : Dict (Option Bytes)) (hc : s.cache = some c) (h : Hash) (b : Bytes) :
    ∃ s', s.write h b = some s' ∧ s'.base = s.base ∧ s'.failAfter = s.failAfter ∧ s'.cache.isSome := by
  unfold Store.write; rw [hc]; exact ⟨_, rfl, rfl, rfl, rfl⟩

theorem del_cache_base (s : Store) (c : Dict (Option Bytes)) (hc : s.cache = some c) (h : Hash) :
    ∃ s', s.del h = some s' ∧ s'.base = s.base ∧ s'.failAfter = s.failAfter ∧ s'.cache.isSome := by
  unfold Store.del; rw [hc]; exact ⟨_, rfl, rfl, rfl, rfl⟩

/-- invariant of everything that runs against a ScratchDB: the wrapped database is untouched -/
def SameBase (s s' : OpSt) : Prop :=
  s'.store.base = s.store.base ∧ s'.store.failAfter = s.store.failAfter ∧ s'.store.cache.isSome

theorem runEv_base (prune : Bool) (root key : Bytes) (s : OpSt) (hs : s.store.cache.isSome) (e : Ev) (s' : OpSt)
    (h : runEv prune root key s e = .ok s') : SameBase s s' := by
  obtain ⟨c, hc⟩ := Option.isSome_iff_exists.1 hs
  cases e with
  | read x => simp only [runEv] at h; split at h <;> simp at h; subst h; exact ⟨rfl, rfl, hs⟩
  | prune x => simp only [runEv] at h; simp at h; subst h; split <;> exact ⟨rfl, rfl, hs⟩
  | persist x b =>
    simp only [runEv, setDbValue] at h
    obtain ⟨st, h1, h2, h3, h4⟩ := write_cache_base s.store c hc x b
    rw [h1] at h
    simp at h; subst h
    exact ⟨h2, h3, h4⟩

theorem runEvs_base (prune : Bool) (root key : Bytes) (s : OpSt) (hs : s.store.cache.isSome) (es : List Ev) :
    SameBase s (runEvs prune root key s es).1 := by
  induction es generalizing s with
  | nil => exact ⟨rfl, rfl, hs⟩
  | cons e es ih =>
    simp only [runEvs]
    split
    · next s' h =>
      obtain ⟨a, b, c⟩ := runEv_base prune root key s hs e s' h
      obtain ⟨a', b', c'⟩ := ih s' c
      exact ⟨a'.trans a, b'.trans b, c'⟩
    · exact ⟨rfl, rfl, hs⟩

theorem pruneStep_base (s : OpSt) (hs : s.store.cache.isSome) (kn : Hash × Nat) (s' : OpSt)
    (h : pruneStep s kn = .ok s') : SameBase s s' := by
  obtain ⟨c, hc⟩ := Option.isSome_iff_exists.1 hs
  simp only [pruneStep] at h
  split at h
  · obtain ⟨st, h1, h2, h3, h4⟩ := del_cache_base s.store c hc kn.1
    rw [h1] at h
    simp at h; subst h
    exact ⟨h2, h3, h4⟩
  · simp at h; subst h; exact ⟨rfl, rfl, hs⟩

theorem completePruning_base (s : OpSt) (hs : s.store.cache.isSome) (l : List (Hash × Nat)) :
    SameBase s (completePruning s l).1 := by
  induction l generalizing s with
  | nil => exact ⟨rfl, rfl, hs⟩
  | cons kn rest ih =>
    simp only [completePruning]
    split
    · next s' h =>
      obtain ⟨a, b, c⟩ := pruneStep_base s hs kn s' h
      obtain ⟨a', b', c'⟩ := ih s' c
      exact ⟨a'.trans a, b'.trans b, c'⟩
    · exact ⟨rfl, rfl, hs⟩

theorem SameBase.trans {a b c : OpSt} (h1 : SameBase a b) (h2 : SameBase b c) : SameBase a c :=
  ⟨h2.1.trans h1.1, h2.2.1.trans h1.2.1, h2.2.2⟩

theorem schedOldRoot_base (T : TrieSt) (s : OpSt) (hs : s.store.cache.isSome) :
    SameBase s (schedOldRoot Hs blankRootHash T s) := by
  unfold schedOldRoot; split <;> exact ⟨rfl, rfl, hs⟩

theorem writeRoot_base (T : TrieSt) (new : Node) (s : OpSt) (hs : s.store.cache.isSome) (s' : OpSt) (r : Hash)
    (h : writeRoot Hs blankRootHash T new s = .ok (s', r)) : SameBase s s' := by
  obtain ⟨c, hc⟩ := Option.isSome_iff_exists.1 hs
  unfold writeRoot at h
  split at h
  · simp at h; rw [← h.1]; exact ⟨rfl, rfl, hs⟩
  · obtain ⟨st, w1, w2, w3, w4⟩ := write_cache_base s.store c hc (Hs.hashOf new) (Hs.encOf new)
    simp only [setDbValue, w1] at h
    simp at h; rw [← h.1]; exact ⟨w2, w3, w4⟩

theorem finishPrune_base (T : TrieSt) (s : OpSt) (hs : s.store.cache.isSome) :
    SameBase s (finishPrune T s).1 := by
  unfold finishPrune; split
  · exact completePruning_base s hs _
  · exact ⟨rfl, rfl, hs⟩

theorem opCore_base (T : TrieSt) (key : Bytes) (val : Option Bytes) (s : OpSt) (hs : s.store.cache.isSome) :
    SameBase s (opCore Hs blankRootHash T key val s).1 := by
  unfold opCore
  split
  · exact ⟨rfl, rfl, hs⟩
  · have h1 := runEvs_base T.prune T.root key s hs (opTree Hs T key val).2
    split
    · next s1 x he => rw [he] at h1; exact h1
    · next s1 he =>
      rw [he] at h1
      have h2 := h1.trans (schedOldRoot_base Hs blankRootHash T s1 h1.2.2)
      split
      · exact h2
      · next s3 newRoot hw =>
        have h3 := h2.trans (writeRoot_base Hs blankRootHash T _ _ h2.2.2 s3 newRoot hw)
        have h4 := h3.trans (finishPrune_base T s3 h3.2.2)
        split
        · next s4 x hf => rw [hf] at h4; exact h4
        · next s4 hf => rw [hf] at h4; exact h4

/-- **While the block is open the underlying database is never written**: whatever a `set` or
    `delete` on the batch trie does (succeed, raise MissingTrieNode, …), the wrapped database and
    the fault counter are as before. -/
theorem opSetDel_base (T : TrieSt) (key : Bytes) (val : Option Bytes) (s : OpSt) (hs : s.store.cache.isSome) :
    SameBase s (opSetDel Hs blankRootHash T key val s).1 := by
  unfold opSetDel
  have h := opCore_base Hs blankRootHash T key val { s with pending := [] } hs
  exact ⟨h.1, h.2.1, h.2.2⟩

/-- operations on the batch trie leave the world's database, fault counter and all tries alone -/
theorem batch_ops_leave_base (w : World) (b : Batch) (hb : w.batch = some b) (key : Bytes) (val : Option Bytes) :
    let w' := (w.setDel Hs blankRootHash .batch key val).2
    w'.base = w.base ∧ w'.failAfter = w.failAfter ∧ w'.tries = w.tries ∧ w'.counts = w.counts := by
  simp only [World.setDel, hb]
  have h := opSetDel_base Hs blankRootHash b.trie key val (w.batchOpSt b) rfl
  generalize opSetDel Hs blankRootHash b.trie key val (w.batchOpSt b) = q at h
  obtain ⟨st', r⟩ := q
  obtain ⟨h1, h2, _⟩ := h
  simp only [World.batchOpSt] at h1 h2
  cases r with
  | ok T' => simp only [World.noteRoot]; split <;> exact ⟨h1, h2, rfl, rfl⟩
  | error e => exact ⟨h1, h2, rfl, rfl⟩

/-- **Leaving the block by an exception**: the block is simply dropped — database, fault counter,
    every trie's root and tree and every reference count are what they were (the batch worked on
    its own cache and on its own copy of the counts). -/
theorem abort_restores_world (w : World) (b : Batch) (hb : w.batch = some b) :
    (w.batchEnd true).2 = { w with batch := none } := by
  simp [World.batchEnd, hb]

/-- the commit loop either applies everything, or stops at a failing write having applied a
    prefix of the cache (`applied ++ rest = cache`, nothing of `rest` touched the database) -/
theorem commitLoop_fail_prefix (dd : Bool) (cache : List (Hash × Option Bytes)) (base : Dict Bytes) (fa : Option Nat) :
    ∃ applied rest, applied ++ rest = cache ∧
      ((commitLoop dd cache base fa).1 = true → rest = []) ∧
      (commitLoop dd cache base fa).2.1 = (commitLoop dd applied base fa).2.1 ∧
      (commitLoop dd applied base fa).1 = true := by
  induction cache generalizing base fa with
  | nil => exact ⟨[], [], rfl, fun _ => rfl, rfl, rfl⟩
  | cons e rest ih =>
    obtain ⟨k, v⟩ := e
    cases v with
    | none =>
      obtain ⟨a, r, h1, h2, h3, h4⟩ := ih (if dd then Dict.erase base k else base) fa
      exact ⟨(k, none) :: a, r, by simp [h1], by simpa [commitLoop] using h2, by simpa [commitLoop] using h3,
        by simpa [commitLoop] using h4⟩
    | some v =>
      cases fa with
      | none =>
        obtain ⟨a, r, h1, h2, h3, h4⟩ := ih (Dict.insert base k v) none
        exact ⟨(k, some v) :: a, r, by simp [h1], by simpa [commitLoop] using h2, by simpa [commitLoop] using h3,
          by simpa [commitLoop] using h4⟩
      | some n =>
        cases n with
        | zero => exact ⟨[], (k, some v) :: rest, rfl, by simp [commitLoop], by simp [commitLoop], by simp [commitLoop]⟩
        | succ n =>
          obtain ⟨a, r, h1, h2, h3, h4⟩ := ih (Dict.insert base k v) (some n)
          exact ⟨(k, some v) :: a, r, by simp [h1], by simpa [commitLoop] using h2, by simpa [commitLoop] using h3,
            by simpa [commitLoop] using h4⟩

/-- **The underlying database fails during the commit**: the outer tries (roots, trees) and all
    reference counts are exactly as before the block; only the database received a prefix of the
    buffered writes. -/
theorem commit_failure_keeps_outer (w : World) (b : Batch) (hb : w.batch = some b) (e : Exn)
    (h : (w.batchEnd false).1 = .error e) :
    (w.batchEnd false).2.tries = w.tries ∧ (w.batchEnd false).2.counts = w.counts ∧
    (w.batchEnd false).2.batch = none := by
  simp only [World.batchEnd, hb] at h ⊢
  simp only [Bool.false_eq_true, ↓reduceIte] at h ⊢
  generalize commitLoop (w.tries[b.outer]!).prune b.cache w.base w.failAfter = q at h ⊢
  obtain ⟨ok, base', fa'⟩ := q
  cases ok with
  | true => simp at h
  | false => simp

/-- **Normal exit**: the outer trie takes over the batch trie's tree and root, keeps its own
    pruning flag, and (if pruning) adopts the batch's reference counts. -/
theorem commit_adopts_root (w : World) (b : Batch) (hb : w.batch = some b) (hi : b.outer < w.tries.size)
    (h : (w.batchEnd false).1 = .ok ()) :
    let w' := (w.batchEnd false).2
    w'.tries[b.outer]!.root = b.trie.root ∧ w'.tries[b.outer]!.tree = b.trie.tree ∧
    w'.tries[b.outer]!.prune = w.tries[b.outer]!.prune ∧ w'.batch = none := by
  simp only [World.batchEnd, hb] at h ⊢
  simp only [Bool.false_eq_true, ↓reduceIte] at h ⊢
  generalize commitLoop (w.tries[b.outer]!).prune b.cache w.base w.failAfter = q at h ⊢
  obtain ⟨ok, base', fa'⟩ := q
  cases ok with
  | false => simp at h
  | true => simp [hi]

end PyTrie.Props.C05
