import PyTrie.Props.C06Refused
import PyTrie.Props.HistoryBlocks
/-! # C06 — histories that contain operations whose FIRST database write is refused (pruning on or off)

The C06 check injects `failfirst` operations into its histories. `C06.first_write_refused_atomic` is the one-call statement
(store, counts, pending marks unchanged). Here it is lifted to the world and to whole histories: a direct call that is stopped by
the refusal of its first write leaves the tree-carrying world LITERALLY as it was (the fault is cleared afterwards, as the harness
does), so a history with such steps reaches exactly the world the history without them reaches — in particular all of
`Free.history_blocks_world` (tree of the flattened history, complete database, exact pruning) holds for it. -/
namespace PyTrie.Props.Free
open PyTrie PyTrie.Hex PyTrie.HexD PyTrie.HexW PyTrie.HexRaw PyTrie.HexFree
open PyTrie.Props.C01 (Op run spec)

inductive HStepP where
  | step (s : HStep)
  | refusedFirst (k : Bytes) (v : Option Bytes)

section
variable (H : Bytes → Bytes)

def stepWP (w : World) : HStepP → List (Except Exn Unit) × World
  | .step s => stepW H w s
  | .refusedFirst k v =>
    let (r, w') := ({ w with failAfter := some 0 } : World).setDel (stdHashing H) (blankRoot H) (.trie 0) k v
    ([r], { w' with failAfter := none })

def runWP (w : World) : List HStepP → List (Except Exn Unit) × World
  | [] => ([], w)
  | s :: rest => let (a, w') := stepWP H w s; let (b, w'') := runWP w' rest; (a ++ b, w'')

/-- the ordinary steps of such a history -/
def plainSteps : List HStepP → List HStep
  | [] => []
  | .step s :: r => s :: plainSteps r
  | .refusedFirst _ _ :: r => plainSteps r

/-- every `refusedFirst` step really is stopped by the refusal (otherwise it had nothing to write and is an ordinary call) -/
def RefusedAll : World → List HStepP → Prop
  | _, [] => True
  | w, .step s :: rest => RefusedAll (stepWP H w (.step s)).2 rest
  | w, .refusedFirst k v :: rest =>
    (({ w with failAfter := some 0 } : World).setDel (stdHashing H) (blankRoot H) (.trie 0) k v).1 = .error .writeFailed ∧
    RefusedAll (stepWP H w (.refusedFirst k v)).2 rest

private theorem setDel_trie_error_eq' (Hs : Hashing) (blankRootHash : Hash) (w : World) (i : Nat) (key : Bytes)
    (val : Option Bytes) (e : Exn)
    (h : (w.setDel Hs blankRootHash (.trie i) key val).1 = .error e) :
    (opSetDel Hs blankRootHash w.tries[i]! key val (w.opSt i)).2 = .error e ∧
    (w.setDel Hs blankRootHash (.trie i) key val).2 =
      { w with base := (opSetDel Hs blankRootHash w.tries[i]! key val (w.opSt i)).1.store.base,
               failAfter := (opSetDel Hs blankRootHash w.tries[i]! key val (w.opSt i)).1.store.failAfter,
               counts := w.counts.set! i (opSetDel Hs blankRootHash w.tries[i]! key val (w.opSt i)).1.counts } := by
  simp only [World.setDel] at h ⊢
  generalize opSetDel Hs blankRootHash w.tries[i]! key val (w.opSt i) = q at h ⊢
  obtain ⟨st', r⟩ := q
  cases r with
  | ok T' => simp at h
  | error x =>
    cases h
    exact ⟨rfl, rfl⟩

private theorem array_set!_self {α} [Inhabited α] (a : Array α) (i : Nat) : a.set! i a[i]! = a := by
  apply Array.ext
  · simp [Array.set!_eq_setIfInBounds]
  · intro j h1 h2
    simp only [Array.set!_eq_setIfInBounds]
    rw [Array.getElem_setIfInBounds]
    split
    · next hij => subst hij; simp [getElem!_pos, h2]
    · rfl

/-- **a direct call stopped by the refusal of its first write leaves the world exactly as it was** — one trie, no block open,
    no fault pending; pruning on or off -/
theorem refused_first_step (w : World) (hsz : w.tries.size = 1) (hcsz : w.counts.size = 1) (hfa : w.failAfter = none)
    (k : Bytes) (v : Option Bytes)
    (hfail : (({ w with failAfter := some 0 } : World).setDel (stdHashing H) (blankRoot H) (.trie 0) k v).1 = .error .writeFailed) :
    (stepWP H w (.refusedFirst k v)).2 = w := by
  have _ := hsz
  have _ := hcsz
  obtain ⟨hw, heq⟩ := setDel_trie_error_eq' (stdHashing H) (blankRoot H) ({ w with failAfter := some 0 } : World) 0 k v _ hfail
  obtain ⟨h1, h2, _⟩ := C06.first_write_refused_atomic (stdHashing H) (blankRoot H) _ k v _ rfl rfl hw
  show ({ (({ w with failAfter := some 0 } : World).setDel (stdHashing H) (blankRoot H) (.trie 0) k v).2 with
    failAfter := none } : World) = w
  rw [heq, h1, h2]
  obtain ⟨base, fa, tries, counts, batch, roots⟩ := w
  simp only at hfa
  subst hfa
  simp only [World.opSt, array_set!_self]

private theorem refused_first_run (prune : Bool) (steps : List HStepP) :
    ∀ (w : World), WInv H prune w → Good H w (plainSteps steps) → RefusedAll H w steps →
      (runWP H w steps).2 = (runW H w (plainSteps steps)).2 := by
  induction steps with
  | nil => intro w _ _ _; rfl
  | cons s rest ih =>
    intro w hinv hg href
    cases s with
    | step s =>
      have hg' : Good H w (s :: plainSteps rest) := hg
      obtain ⟨h1, h2, _⟩ := step_tree H prune w hinv s (plainSteps rest) hg'
      have href' : RefusedAll H (stepW H w s).2 rest := href
      have := ih _ h1 h2 href'
      show (runWP H (stepW H w s).2 rest).2 = (runW H (stepW H w s).2 (plainSteps rest)).2
      exact this
    | refusedFirst k v =>
      obtain ⟨hf, href'⟩ := href
      have hw := refused_first_step H w hinv.tsz hinv.csz hinv.fa k v hf
      rw [hw] at href'
      have hg' : Good H w (plainSteps rest) := hg
      have := ih _ hinv hg' href'
      show (runWP H (stepWP H w (.refusedFirst k v)).2 rest).2 = (runW H w (plainSteps rest)).2
      rw [hw]
      exact this

/-- **a history with refused-first-write steps reaches exactly the world of the history without them** -/
theorem refused_first_history (prune : Bool) (steps : List HStepP)
    (hgood : Good H (freshW H prune) (plainSteps steps)) (href : RefusedAll H (freshW H prune) steps) :
    (runWP H (freshW H prune) steps).2 = (runW H (freshW H prune) (plainSteps steps)).2 :=
  refused_first_run H prune steps _ (winv_fresh H prune) hgood href

/-- hence exact pruning and the contents theorem hold after such histories too -/
theorem refused_first_history_exact (hlen : ∀ b, (H b).length = 32) (steps : List HStepP)
    (hgood : Good H (freshW H true) (plainSteps steps)) (href : RefusedAll H (freshW H true) steps) :
    ((runWP H (freshW H true) steps).2.tries[0]!).tree = run (flattenSteps (plainSteps steps)) ∧
    (∀ x, ((runWP H (freshW H true) steps).2.counts[0]!).val x =
        occRoot (stdHashing H) (run (flattenSteps (plainSteps steps))) x) ∧
    (∀ x, Dict.contains (runWP H (freshW H true) steps).2.base x = true ↔
        0 < occRoot (stdHashing H) (run (flattenSteps (plainSteps steps))) x) := by
  rw [refused_first_history H true steps hgood href]
  have h := Free.history_blocks_world H hlen true (plainSteps steps) hgood
  exact ⟨h.2.2.1, (h.2.2.2.2.2 rfl).1, (h.2.2.2.2.2 rfl).2⟩

end
end PyTrie.Props.Free
