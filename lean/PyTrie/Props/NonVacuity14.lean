import PyTrie.Props.NonVacuity
import PyTrie.Props.C14Rollback
/-! non-vacuity: a depth-2 tree under a collision-free toy hash; two writes, a rollback to the root after the first write, a
    write of the key written last (the situation of the seeded change), another rollback to the very first root -/
namespace PyTrie.Props.NonVacuity14
open PyTrie PyTrie.Smt PyTrie.Props.C14
open PyTrie.Bin (Bits)
open PyTrie.Props.NonVacuity (mixH mixH_len)

def revs : List REv :=
  [.op (.set [false, true] [7]), .op (.set [true, true] [8]), .rollback 1, .op (.set [true, true] [9]), .rollback 0]

example : (rspecs [] revs).length = 6 := (rrun_lengths mixH 2 [] revs).2

theorem revs_sized : REvKeysSized 2 revs := by
  intro o ho
  simp only [revs, List.mem_cons, REv.op.injEq, List.mem_nil_iff, or_false] at ho
  rcases ho with rfl | rfl | h | rfl | h
  · rfl
  · rfl
  · cases h
  · rfl
  · cases h

def functionalB (db : Db) : Bool := db.all fun e => db.all fun e' => !(e.1 == e'.1) || e.2 == e'.2

theorem functional_of_B' (db : Db) (h : functionalB db = true) : Functional db := by
  intro x b b' h1 h2
  simp only [functionalB, List.all_eq_true, Bool.or_eq_true, Bool.not_eq_true', beq_eq_false_iff_ne, beq_iff_eq] at h
  rcases h _ h1 _ h2 with h | h
  · exact absurd rfl h
  · exact h

theorem revs_functional : Functional (rrun mixH 2 [] revs).1.db := functional_of_B' _ (by decide +kernel)

/-- **`rollback_history_get` applies**: after the second rollback the tree reads the FIRST version (everything default) -/
theorem rollback_witness (key : Bits) (hkey : key.length = 2) :
    Smt.get (rrun mixH 2 [] revs).1 key =
      if (rspecs [] revs).getLastD (fun _ => []) key = [] then .error .keyError
      else .ok ((rspecs [] revs).getLastD (fun _ => []) key) :=
  rollback_history_get mixH mixH_len 2 [] revs revs_sized revs_functional key hkey

/-- **`rollback_history_rep` applies at every version**; version 4 (after `rollback 1; set 11 := 09`) holds `01 ↦ 07`,
    `11 ↦ 09` and NOT the abandoned `11 ↦ 08` -/
theorem rollback_versions_witness (j : Nat) (hj : j ≤ 5) :
    Rep mixH (rrun mixH 2 [] revs).1.db 2 ((rrun mixH 2 [] revs).2.getD j []) ((rspecs [] revs).getD j (fun _ => [])) :=
  rollback_history_rep mixH mixH_len 2 [] revs revs_sized revs_functional j hj

example : ((rspecs [] revs).getD 4 (fun _ => [])) [true, true] = [9] ∧ ((rspecs [] revs).getD 4 (fun _ => [])) [false, true] = [7] ∧
    ((rspecs [] revs).getD 2 (fun _ => [])) [true, true] = [8] ∧ ((rspecs [] revs).getD 5 (fun _ => [])) [false, true] = [] := by
  decide +kernel

end PyTrie.Props.NonVacuity14
