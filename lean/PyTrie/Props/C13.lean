import PyTrie.Lemmas.BranchProofs
import PyTrie.Lemmas.BranchRawRefines
import PyTrie.Props.C12
/-! # C13 — binary-trie branches and witnesses are sufficient, exact and unforgeable

Tree-level functions transcribe `trie/branches.py`; `bgetD` / `ifBranchValid` read *encoded* nodes
from a database built from an arbitrary list of offered byte strings (`if_branch_valid` builds
`{keccak(node): node}` and runs `BinaryTrie.get` on it). Every reachable trie is canonical
(`C12.canon_run`), so the theorems apply to every non-empty BinaryTrie. `NoCollision` is the run-level
predicate "no offered string collides with a node of the trie"; no injectivity of the hash is assumed. -/
namespace PyTrie.Props.C13
open PyTrie PyTrie.Bin PyTrie.Bin.BNode

/-- `get_branch` refuses (InvalidKeyError) only a key that is not stored and is a proper prefix or
    extension of a stored key … -/
theorem branch_refusal (t : BNode) (hc : BCanon t) (k : Bits) (h : ∃ e, getBranch t k = .error e) :
    bget t k = none ∧ ∃ k' v', bget t k' = some v' ∧ Related k' k := getBranch_error_related t hc k h

/-- … exactly: an unstored key that extends a stored key, or is a proper prefix of one *ending at a node* -/
theorem branch_refusal_iff (t : BNode) (hc : BCanon t) (k : Bits) :
    (∃ e, getBranch t k = .error e) ↔
      bget t k = none ∧ ∃ k' v', bget t k' = some v' ∧ Related k' k ∧ (k <+: k' → AtNode t k) :=
  getBranch_error_iff t hc k

/-- the nodes of a branch are nodes of the trie, root first -/
theorem branch_nodes (t : BNode) (k : Bits) (l : List BNode) (h : getBranch t k = .ok l) :
    l.head? = some t ∧ ∀ x ∈ l, Sub x t := getBranch_sub t k l h

/-- **sufficient**: `if_branch_valid(get_branch(key), root, key, get(key))` holds — for present and absent keys -/
theorem branch_valid (H : Bytes → Bytes) (hlen : ∀ b, (H b).length = 32) (t : BNode) (hc : BCanon t) (k : Bits)
    (path : List BNode) (hp : getBranch t k = .ok path) (hnc : NoCollision H t (path.map (encNode H))) :
    ifBranchValid H (path.map (encNode H)) (hashNode H t) k (bget t k) = .valid :=
  Bin.branch_valid H hlen t hc k path hp hnc

/-- **unforgeable**: no list of byte strings — altered, truncated, for another key, from another trie —
    makes `if_branch_valid` confirm an answer the trie does not give -/
theorem branch_sound (H : Bytes → Bytes) (hlen : ∀ b, (H b).length = 32) (t : BNode) (hc : BCanon t) (k : Bits)
    (nodes : List Bytes) (hnc : NoCollision H t nodes) (claimed : Option Bytes)
    (hv : ifBranchValid H nodes (hashNode H t) k claimed = .valid) : claimed = bget t k :=
  Bin.branch_sound H hlen t hc k nodes hnc claimed hv

/-- `check_if_branch_exist(p)` ⇔ some stored key starts with `p` -/
theorem exist_iff (t : BNode) (hc : BCanon t) (p : Bits) :
    branchExists t p = true ↔ ∃ k v, bget t k = some v ∧ p <+: k := branchExists_iff t hc p

/-- `get_trie_nodes` returns exactly the nodes reachable from the root -/
theorem trie_nodes_exact (t x : BNode) : x ∈ trieNodes t ↔ Sub x t := mem_trieNodes_iff t x

/-- a witness contains only nodes of the trie … -/
theorem witness_members (t : BNode) (p : Bits) (w : List BNode) (h : getWitness t p = .ok w) :
    ∀ x ∈ w, Sub x t := getWitness_sub t p w h

/-- … is refused only when the prefix runs past a stored key … -/
theorem witness_refusal (t : BNode) (hc : BCanon t) (p : Bits) (e : KeyErr) (h : getWitness t p = .error e) :
    ∃ k v, bget t k = some v ∧ k <+: p ∧ k ≠ p := getWitness_error t hc p e h

/-- … and is **sufficient** to answer `get(k)` for every key `k` starting with `p` -/
theorem witness_sufficient (H : Bytes → Bytes) (hlen : ∀ b, (H b).length = 32) (t : BNode) (hc : BCanon t) (p : Bits)
    (w : List BNode) (hw : getWitness t p = .ok w) (hnc : NoCollision H t (w.map (encNode H)))
    (k : Bits) (hpk : p <+: k) (fuel : Nat) (hf : k.length + 1 < fuel) :
    bgetD (H []) (offeredDb H (w.map (encNode H))) fuel (hashNode H t) k = .ok (bget t k) :=
  Bin.witness_sufficient H hlen t hc p w hw hnc k hpk fuel hf

/-- every trie reached by a history is canonical, so all of the above applies to it -/
theorem reachable_canonical (ops : List C12.Op) (hk : C12.KeysNonEmpty ops) (n : BNode)
    (h : C12.run ops = some n) : BCanon n := by
  have := C12.canon_run ops hk
  rw [h] at this
  exact this

end PyTrie.Props.C13

/-! ## Raw level: `trie/branches.py` as written, over hashes and the database

`Model/BranchRaw.lean` transcribes `_check_if_branch_exist`, `_get_branch`, `_get_trie_nodes` and
`_get_witness_for_key_prefix` statement by statement (`parse_node(db[node_hash])`, `node_hash in db`); the
correspondence check runs it against the code, also on databases with a node missing and on older roots. On a
database storing a canonical tree it returns the encodings of what the tree-level functions return, so every theorem
above is a theorem about this transcription. -/
namespace PyTrie.Props.C13
open PyTrie PyTrie.Bin PyTrie.BinRaw PyTrie.BranchRaw

theorem raw_exists (H : Bytes → Bytes) (hlen : ∀ b, (H b).length = 32) (t : BNode) (hc : BCanon t) (db : Db) (hst : AllStored H db t)
    (k : Bits) (fuel : Nat) (hf : k.length + 1 < fuel) :
    existsD (H []) db fuel (hashNode H t) k = .ok (branchExists t k) := existsD_refines H hlen t hc db hst k fuel hf

theorem raw_get_branch (H : Bytes → Bytes) (hlen : ∀ b, (H b).length = 32) (t : BNode) (hc : BCanon t) (db : Db) (hst : AllStored H db t)
    (k : Bits) (fuel : Nat) (hf : k.length + 1 < fuel) :
    getBranchD (H []) db fuel (hashNode H t) k = liftR H (getBranch t k) := getBranchD_refines H hlen t hc db hst k fuel hf

theorem raw_trie_nodes (H : Bytes → Bytes) (hlen : ∀ b, (H b).length = 32) (t : BNode) (hc : BCanon t) (db : Db) (hst : AllStored H db t)
    (fuel : Nat) (hf : bheight t < fuel) :
    trieNodesD db fuel (hashNode H t) = .ok ((trieNodes t).map (encNode H)) := trieNodesD_refines H hlen t hc db hst fuel hf

/-- the recursion depth of the witness generator is bounded by the height of the trie, not by the key: with an
    exhausted key at a branch node the code keeps descending to the right -/
theorem raw_witness (H : Bytes → Bytes) (hlen : ∀ b, (H b).length = 32) (t : BNode) (hc : BCanon t) (db : Db) (hst : AllStored H db t)
    (k : Bits) (tfuel fuel : Nat) (htf : bheight t < tfuel) (hf : bheight t < fuel) :
    witnessD db tfuel fuel (hashNode H t) k = liftR H (getWitness t k) :=
  witnessD_refines_of_height H hlen t hc db hst k tfuel fuel htf hf

theorem raw_blank (H : Bytes → Bytes) (db : Db) (hb : lookup db (H []) = none) (k : Bits) (tfuel fuel : Nat) (hf : 0 < fuel) (htf : 0 < tfuel) :
    existsD (H []) db fuel (H []) k = .ok false ∧ getBranchD (H []) db fuel (H []) k = .ok [] ∧
    trieNodesD db tfuel (H []) = .ok [] ∧ witnessD db tfuel fuel (H []) k = .ok [] := top_blank H db hb k tfuel fuel hf htf

end PyTrie.Props.C13
