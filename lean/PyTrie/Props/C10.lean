import PyTrie.Lemmas.HexIterProofs
import PyTrie.Lemmas.NodesLoop
import PyTrie.Props.C02
/-! # C10 — NodeIterator enumerates contents in key order; next() is the strict successor

`nextKey`/`keyAfter` mirror `_get_next_key`/`_get_key_after`, `preorder` is the sequence `nodes()`
yields, `itemsOf` the sequence `items()` yields (`keys()`/`values()` are its projections). The
tree-level theorems (`Lemmas/HexIterProofs.lean`) hold for every canonical tree; here they are
restated for the trie reached by an arbitrary history, in terms of byte-string keys and Python's
byte-string order `blt`. -/
namespace PyTrie.Props.C10
open PyTrie PyTrie.Hex PyTrie.Hex.Node PyTrie.Props.C01

/-- byte-string order is nibble-path order -/
theorem plt_nibs (a b : Bytes) : plt (nibs a) (nibs b) = blt a b := Hex.plt_nibs a b

/-- a nibble path under which a reachable trie stores something is the image of a byte-string key -/
theorem stored_path_is_key (ops : List Op) (p : Path) (h : get (run ops) p ≠ []) : ∃ k, p = nibs k :=
  Classical.byContradiction fun hn =>
    h (C02.get_off_image ops p (fun k hk => hn ⟨k, hk⟩))

/-- `next(k)`: when `_get_key_after` returns a path it is the image of a stored key strictly greater
    than `k` with no stored key strictly between; when it returns `None`, no stored key is greater —
    for every byte string `k`, stored or not -/
theorem next_is_successor (ops : List Op) (k : Bytes) :
    (∀ r, keyAfter (run ops) (nibs k) [] = some r →
        ∃ k', r = nibs k' ∧ spec ops k' ≠ [] ∧ blt k k' = true ∧
          ∀ k'', spec ops k'' ≠ [] → blt k k'' = true → blt k'' k' = false) ∧
    (keyAfter (run ops) (nibs k) [] = none → ∀ k'', spec ops k'' ≠ [] → blt k k'' = false) := by
  have hs := keyAfter_spec (run ops) (canon_run ops) (nibs k) []
  constructor
  · intro r hr
    obtain ⟨r', hrr, hget, hlt, hmin⟩ := hs.1 r hr
    simp only [List.nil_append] at hrr
    subst hrr
    obtain ⟨k', hk'⟩ := stored_path_is_key ops r hget
    subst hk'
    refine ⟨k', rfl, ?_, ?_, ?_⟩
    · rw [← run_get]; exact hget
    · rw [← Hex.plt_nibs]; exact hlt
    · intro k'' hk'' hlt''
      rw [← Hex.plt_nibs]
      apply hmin
      · rw [run_get]; exact hk''
      · rw [Hex.plt_nibs]; exact hlt''
  · intro hnone k'' hk''
    rw [← Hex.plt_nibs]
    apply hs.2 hnone
    rw [run_get]; exact hk''

/-- `next()`: `None` exactly on the empty trie, otherwise the smallest stored key -/
theorem next_none_is_min (ops : List Op) :
    (isBlank (run ops) = true → nextKey (run ops) [] = none) ∧
    (isBlank (run ops) = false → ∃ k, nextKey (run ops) [] = some (nibs k) ∧ spec ops k ≠ [] ∧
        ∀ k', spec ops k' ≠ [] → blt k' k = false) := by
  have hs := nextKey_spec (run ops) (canon_run ops) []
  refine ⟨hs.1, fun hb => ?_⟩
  obtain ⟨r, hr, hget, hmin⟩ := hs.2 hb
  simp only [List.nil_append] at hr
  obtain ⟨k, hk⟩ := stored_path_is_key ops r hget
  subst hk
  refine ⟨k, hr, ?_, ?_⟩
  · rw [← run_get]; exact hget
  · intro k' hk'
    rw [← Hex.plt_nibs]
    apply hmin
    rw [run_get]; exact hk'

/-- `items()` yields exactly the stored pairs … -/
theorem items_exact (ops : List Op) (k v : Bytes) :
    (nibs k, v) ∈ itemsOf (run ops) ↔ v ≠ [] ∧ spec ops k = v := by
  rw [itemsOf_mem (run ops) (canon_run ops), run_get]

/-- … every yielded path is a byte-string key … -/
theorem items_are_keys (ops : List Op) (p : Path) (v : Bytes) (h : (p, v) ∈ itemsOf (run ops)) :
    ∃ k, p = nibs k := by
  obtain ⟨hv, hg⟩ := (itemsOf_mem (run ops) (canon_run ops) p v).1 h
  exact stored_path_is_key ops p (by rw [hg]; exact hv)

/-- … in strictly ascending key order, hence each exactly once -/
theorem items_sorted (ops : List Op) :
    ((itemsOf (run ops)).map (·.1)).Pairwise (fun a b => plt a b = true) :=
  itemsOf_sorted (run ops) (canon_run ops)

/-- `nodes()`: every yielded pair is the node `traverse(prefix)` returns … -/
theorem nodes_are_traverse (ops : List Op) (p : Path) (n : Node) (h : (p, n) ∈ preorder (run ops) []) :
    nodeAt (run ops) p = some n ∧ traverseT (run ops) p = (n, []) :=
  preorder_nodeAt (run ops) (canon_run ops) p n h

/-- … prefixes strictly increase in tuple order: each node once, a parent (a proper prefix) before
    its children, children left to right … -/
theorem nodes_preorder (ops : List Op) :
    ((preorder (run ops) []).map (·.1)).Pairwise (fun a b => plt a b = true) :=
  preorder_sorted (run ops) (canon_run ops)

/-- … and every non-blank node of the trie is yielded -/
theorem nodes_complete (ops : List Op) (p : Path) (n : Node)
    (h : nodeAt (run ops) p = some n) (hb : isBlank n = false) : (p, n) ∈ preorder (run ops) [] :=
  preorder_complete (run ops) (canon_run ops) p n h hb

/-- **`nodes()` as written** — the loop over a `HexaryTrieFog` taking `nearest_right(())`, with a
    `TrieFrontierCache` (`traverse` on a miss, `traverse_from(cached parent, segment)` on a hit), `explore`
    and cache maintenance, transcribed in `Model/Iter.lean` — yields exactly the pre-order sequence, for
    every reachable trie (fuel = any bound above the number of nodes) -/
theorem nodes_loop_is_preorder (ops : List Op) (fuel : Nat) (hf : (preorder (run ops) []).length < fuel) :
    nodesOf (run ops) fuel = preorder (run ops) [] :=
  nodesOf_eq_preorder (run ops) (canon_run ops) fuel hf

end PyTrie.Props.C10
