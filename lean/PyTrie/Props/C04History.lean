import PyTrie.Lemmas.OldRootsReadable
import PyTrie.Props.C04
/-! # C04 at history level — after ANY history on a non-pruning trie every earlier root is still fully readable -/
namespace PyTrie.Props.C04
open PyTrie PyTrie.Hex PyTrie.HexD PyTrie.HexW PyTrie.HexRaw
open PyTrie.Props.C01 (Op run spec)

/-- the final database is complete for every earlier version of the trie (as a trie opened at that version's root) -/
theorem history_complete_for_all_versions (H : Bytes → Bytes) (ops : List Op) (T : TrieSt) (s : OpSt)
    (h : ReachOpsNC (stdHashing H) (blankRoot H) false ops T s) (i : Nat) (hi : i ≤ ops.length) :
    Complete (stdHashing H) (blankRoot H) s.store.base
      { tree := run (ops.take i), root := rootHash H (run (ops.take i)), prune := false } :=
  noprune_history_complete_for_all H ops T s h i hi

/-- **old roots stay fully readable, for every history**: `get` through rlp-decoded nodes fetched from the FINAL database,
    started at the root hash the trie had after the first `i` operations, returns what was stored at that moment -/
theorem history_old_roots_readable (H : Bytes → Bytes) (hlen : ∀ b, (H b).length = 32) (ops : List Op) (T : TrieSt) (s : OpSt)
    (h : ReachOpsNC (stdHashing H) (blankRoot H) false ops T s)
    (hbk : Dict.get? s.store.base (blankRoot H) = none)
    (hsm : ∀ h b, Dict.get? s.store.base h = some b → b.length < 2 ^ 64)
    (i : Nat) (hi : i ≤ ops.length) (key : Bytes) :
    getD H s.store.base (rootHash H (run (ops.take i))) (nibs key) = .ok (spec (ops.take i) key) :=
  noprune_old_roots_readable H hlen ops T s h hbk hsm i hi key

/-- nothing any intermediate database held was ever removed or altered -/
theorem history_preserves_every_binding (H : Bytes → Bytes) (ops : List Op) (T : TrieSt) (s : OpSt)
    (h : ReachOpsNC (stdHashing H) (blankRoot H) false ops T s) (i : Nat) (hi : i ≤ ops.length) :
    ∃ Ti si, ReachOpsNC (stdHashing H) (blankRoot H) false (ops.take i) Ti si ∧ Preserved si.store.base s.store.base :=
  noprune_history_preserves H ops T s h i hi

end PyTrie.Props.C04
