import PyTrie.Props.C04
import PyTrie.Props.C04History
import PyTrie.Lemmas.RawHistoryGet
import PyTrie.Lemmas.SharedDb
import PyTrie.Lemmas.HistoryAux
/-! # C04 — several non-pruning tries over ONE database, whole interleaved histories

Events: a new empty non-pruning trie on the shared database (`HexaryTrie(db)`), a trie opened at a root some trie had before
(`HexaryTrie(db, root)` / `at_root(root)`), a `set` / `delete` on trie number `i`. `srun` applies them with the world
executor (`World.setDel`: all database traffic and root updates). `SGood` is the run-level premise: each `set` / `delete`
is addressed to an existing trie and its writes do not clobber a stored entry with another body (`NoClobber` — false only if
the run itself exhibits a hash collision), plus the reference-equality side conditions of `op_keeps_complete`.

Theorem: along every such history every call returns normally, changes only the trie it is addressed to (to the tree-level
result), preserves every database binding; afterwards the database is complete for EVERY trie and for EVERY root any trie
ever had, so the raw-level reader returns each trie's own contents and each old root's contents. -/
namespace PyTrie.Props.C04
open PyTrie PyTrie.Hex PyTrie.HexD PyTrie.HexW PyTrie.HexRaw

/-- events of a history over one shared database -/
inductive SEv where
  | newTrie
  | openAt (root : Hash)
  | op (i : Nat) (key : Bytes) (val : Option Bytes)

section
variable (H : Bytes → Bytes)

def sstep (w : World) : SEv → World
  | .newTrie => (w.newTrie (blankRoot H) false).1
  | .openAt r => match w.openAt (blankRoot H) r with
    | some (w', _) => w'
    | none => w
  | .op i k v => (w.setDel (stdHashing H) (blankRoot H) (.trie i) k v).2

def srun (w : World) (evs : List SEv) : World := evs.foldl (sstep H) w

/-- run-level premises of one event at world `w` -/
def SGoodEv (w : World) : SEv → Prop
  | .newTrie => True
  | .openAt _ => True
  | .op i k v =>
    i < w.tries.size ∧
    RefSound (stdHashing H) (w.tries[i]!).tree (nibs k) ∧
    (isBlank (opTree (stdHashing H) (w.tries[i]!) k v).1 = false →
      hashOf H (opTree (stdHashing H) (w.tries[i]!) k v).1 ≠ blankRoot H) ∧
    NoClobber w.base (opWrites (stdHashing H) (w.tries[i]!) k v)

/-- … of every event, along the run -/
def SGood : World → List SEv → Prop
  | _, [] => True
  | w, e :: rest => SGoodEv H w e ∧ SGood (sstep H w e) rest

/-- the tree-level effect of a call (`set k b""` is a delete, as in `HexaryTrie.set`) -/
def treeOp (t : Node) (k : Bytes) : Option Bytes → Node
  | some v => if v = [] then Hex.delete t (nibs k) else Hex.set t (nibs k) v
  | none => Hex.delete t (nibs k)

/-- the invariant of a shared database: no fault injected, no block open, every trie is non-pruning and canonical, the
    database is complete for every trie and for every recorded root -/
structure SInv (w : World) : Prop where
  fa : w.failAfter = none
  nb : w.batch = none
  csz : w.counts.size = w.tries.size
  tries : ∀ i, i < w.tries.size → (w.tries[i]!).prune = false ∧ Canon (w.tries[i]!).tree ∧
            Complete (stdHashing H) (blankRoot H) w.base (w.tries[i]!)
  roots : ∀ r t, (r, t) ∈ w.roots → Canon t ∧
            Complete (stdHashing H) (blankRoot H) w.base { tree := t, root := r, prune := false }

/-- the empty world satisfies the invariant -/
theorem sinv_empty : SInv H ({} : World) :=
  ⟨rfl, rfl, rfl, fun i hi => absurd hi (Nat.not_lt_zero i), fun r t h => by cases h⟩

private theorem canon_treeOp (t : Node) (k : Bytes) (v : Option Bytes) (hc : Canon t) : Canon (treeOp t k v) := by
  cases v with
  | none => exact canon_delete _ _ hc
  | some v =>
    simp only [treeOp]
    split
    · exact canon_delete _ _ hc
    · next hne => exact canon_set _ _ _ hne hc

/-- one more non-pruning canonical trie for which the database is complete -/
private theorem sinv_push (w : World) (hinv : SInv H w) (T : TrieSt) (hp : T.prune = false) (hc : Canon T.tree)
    (hcomp : Complete (stdHashing H) (blankRoot H) w.base T) :
    SInv H { w with tries := w.tries.push T, counts := w.counts.push [] } := by
  refine ⟨hinv.fa, hinv.nb, ?_, ?_, hinv.roots⟩
  · show (w.counts.push []).size = (w.tries.push T).size
    rw [Array.size_push, Array.size_push, hinv.csz]
  · intro j hj
    have hj' : j < w.tries.size + 1 := by simpa using hj
    show ((w.tries.push T)[j]!).prune = false ∧ Canon ((w.tries.push T)[j]!).tree ∧
      Complete (stdHashing H) (blankRoot H) w.base ((w.tries.push T)[j]!)
    by_cases hlt : j < w.tries.size
    · rw [array_push_lt _ _ _ hlt]; exact hinv.tries j hlt
    · have hje : j = w.tries.size := by omega
      subst hje
      rw [array_push_last]; exact ⟨hp, hc, hcomp⟩

/-- a `set` / `delete` on trie `i`: everything `shared_step` and `shared_root_recorded` say about it -/
private theorem shared_op (w : World) (hinv : SInv H w) (i : Nat) (k : Bytes) (v : Option Bytes)
    (hg : SGoodEv H w (.op i k v)) :
    SInv H (sstep H w (.op i k v)) ∧ Preserved w.base (sstep H w (.op i k v)).base ∧
    (w.setDel (stdHashing H) (blankRoot H) (.trie i) k v).1 = .ok () ∧
    (sstep H w (.op i k v)).tries.size = w.tries.size ∧
    ((sstep H w (.op i k v)).tries[i]!).tree = treeOp (w.tries[i]!).tree k v ∧
    (∀ j, j ≠ i → (sstep H w (.op i k v)).tries[j]! = w.tries[j]!) ∧
    ∃ t, (((sstep H w (.op i k v)).tries[i]!).root, t) ∈ (sstep H w (.op i k v)).roots := by
  obtain ⟨hi, hrs, hbl, hnc⟩ := hg
  obtain ⟨hpr, hcan, hcomp⟩ := hinv.tries i hi
  have hfa0 : (w.opSt i).store.failAfter = none := hinv.fa
  have hcomp0 : Complete (stdHashing H) (blankRoot H) (w.opSt i).store.base w.tries[i]! := hcomp
  have hnc' : NoClobber (w.opSt i).store.base (opWrites (stdHashing H) w.tries[i]! k v) := hnc
  obtain ⟨T', hok, htree, hpr', hpres, hcomp'⟩ := opSetDel_complete (stdHashing H) (blankRoot H) w.tries[i]! hpr hcan
    k v (w.opSt i) rfl hfa0 hcomp0 hrs hnc' hbl
  have hpres' : Preserved w.base (opSetDel (stdHashing H) (blankRoot H) w.tries[i]! k v (w.opSt i)).1.store.base := hpres
  obtain ⟨hres, hbase, hfa, htries, hcounts, hbatch⟩ :=
    World.setDel_trie_ok (stdHashing H) (blankRoot H) w i k v T' hok
  obtain ⟨hroots, hrec⟩ := World.setDel_trie_ok_roots (stdHashing H) (blankRoot H) w i k v T' hok
  have hfa' := failAfter_none_preserved (stdHashing H) (blankRoot H) w.tries[i]! k v (w.opSt i) hfa0
  have htree' : T'.tree = treeOp (w.tries[i]!).tree k v := by
    cases v with
    | none => exact htree
    | some x => exact htree
  show SInv H (w.setDel (stdHashing H) (blankRoot H) (.trie i) k v).2 ∧
    Preserved w.base (w.setDel (stdHashing H) (blankRoot H) (.trie i) k v).2.base ∧ _ ∧
    (w.setDel (stdHashing H) (blankRoot H) (.trie i) k v).2.tries.size = w.tries.size ∧
    ((w.setDel (stdHashing H) (blankRoot H) (.trie i) k v).2.tries[i]!).tree = _ ∧
    (∀ j, j ≠ i → (w.setDel (stdHashing H) (blankRoot H) (.trie i) k v).2.tries[j]! = w.tries[j]!) ∧
    ∃ t, (((w.setDel (stdHashing H) (blankRoot H) (.trie i) k v).2.tries[i]!).root, t) ∈
      (w.setDel (stdHashing H) (blankRoot H) (.trie i) k v).2.roots
  generalize (w.setDel (stdHashing H) (blankRoot H) (.trie i) k v).2 = w' at hbase hfa htries hcounts hbatch hroots hrec ⊢
  have hpw : Preserved w.base w'.base := by rw [hbase]; exact hpres'
  have hti : w'.tries[i]! = T' := by rw [htries]; exact array_set!_self _ _ _ hi
  have hto : ∀ j, j ≠ i → w'.tries[j]! = w.tries[j]! := by
    intro j hj; rw [htries]; exact array_set!_other _ _ _ _ hj
  have hts : w'.tries.size = w.tries.size := by rw [htries]; exact array_set!_size _ _ _
  have hcw : Complete (stdHashing H) (blankRoot H) w'.base T' := by rw [hbase]; exact hcomp'
  have hcanT : Canon T'.tree := by rw [htree']; exact canon_treeOp _ k v hcan
  refine ⟨⟨hfa.trans hfa', hbatch.trans hinv.nb, ?_, ?_, ?_⟩, hpw, hres, hts, by rw [hti]; exact htree', hto,
    by rw [hti]; exact hrec⟩
  · rw [hcounts, htries, array_set!_size, array_set!_size]; exact hinv.csz
  · intro j hj
    rw [hts] at hj
    by_cases hji : j = i
    · subst hji
      rw [hti]; exact ⟨hpr', hcanT, hcw⟩
    · rw [hto j hji]
      obtain ⟨a, b, c⟩ := hinv.tries j hj
      exact ⟨a, b, complete_mono _ _ _ _ hpw _ c⟩
  · intro r t hrt
    rcases hroots _ hrt with hold | hnew
    · obtain ⟨a, b⟩ := hinv.roots r t hold
      exact ⟨a, complete_mono _ _ _ _ hpw _ b⟩
    · have h1 : r = T'.root := congrArg Prod.fst hnew
      have h2 : t = T'.tree := congrArg Prod.snd hnew
      subst h1 h2
      refine ⟨hcanT, ?_⟩
      have : ({ tree := T'.tree, root := T'.root, prune := false } : TrieSt) = T' := by
        cases T' with
        | mk a b c => simp only at hpr'; subst hpr'; rfl
      rw [this]; exact hcw

/-- **one event keeps the invariant and every database binding**; a `set` / `delete` returns normally, moves trie `i` to
    the tree-level result and leaves every other trie as it was -/
theorem shared_step (w : World) (hinv : SInv H w) (e : SEv) (hg : SGoodEv H w e) :
    SInv H (sstep H w e) ∧ Preserved w.base (sstep H w e).base ∧
    (∀ i k v, e = .op i k v →
      (w.setDel (stdHashing H) (blankRoot H) (.trie i) k v).1 = .ok () ∧
      (sstep H w e).tries.size = w.tries.size ∧
      ((sstep H w e).tries[i]!).tree = treeOp (w.tries[i]!).tree k v ∧
      (∀ j, j ≠ i → (sstep H w e).tries[j]! = w.tries[j]!)) := by
  cases e with
  | newTrie =>
    refine ⟨?_, preserved_refl _, fun i k v h => by cases h⟩
    exact sinv_push H w hinv _ rfl trivial (complete_blank _ _ _ _)
  | openAt r =>
    refine ⟨?_, ?_, fun i k v h => by cases h⟩
    · show SInv H (match w.openAt (blankRoot H) r with | some (w', _) => w' | none => w)
      rcases World.openAt_cases (blankRoot H) w r with hn | ⟨t, hs, ht⟩
      · rw [hn]; exact hinv
      · rw [hs]
        rcases ht with ⟨hr, htb⟩ | hmem
        · subst hr htb
          exact sinv_push H w hinv _ rfl trivial (complete_blank _ _ _ _)
        · obtain ⟨a, b⟩ := hinv.roots r t hmem
          exact sinv_push H w hinv _ rfl a b
    · show Preserved w.base (match w.openAt (blankRoot H) r with | some (w', _) => w' | none => w).base
      rcases World.openAt_cases (blankRoot H) w r with hn | ⟨t, hs, _⟩
      · rw [hn]; exact preserved_refl _
      · rw [hs]; exact preserved_refl _
  | op i k v =>
    obtain ⟨h1, h2, h3, h4, h5, h6, _⟩ := shared_op H w hinv i k v hg
    refine ⟨h1, h2, ?_⟩
    intro i' k' v' he
    cases he
    exact ⟨h3, h4, h5, h6⟩

/-- **whole interleaved histories keep the invariant; nothing any intermediate database held is removed or altered** -/
theorem shared_history (evs : List SEv) (w : World) (hinv : SInv H w) (hg : SGood H w evs) :
    SInv H (srun H w evs) ∧ Preserved w.base (srun H w evs).base := by
  induction evs generalizing w with
  | nil => exact ⟨hinv, preserved_refl _⟩
  | cons e rest ih =>
    obtain ⟨hg1, hg2⟩ := hg
    obtain ⟨h1, h2, _⟩ := shared_step H w hinv e hg1
    obtain ⟨i1, i2⟩ := ih (sstep H w e) h1 hg2
    exact ⟨i1, preserved_trans h2 i2⟩

/-- **every trie reads its own contents, every root any trie ever had reads the contents it had then** — through the
    raw-level reader (`get` over rlp-decoded nodes fetched from the shared database as it is at the end) -/
theorem shared_history_reads (hlen : ∀ b, (H b).length = 32) (evs : List SEv) (hg : SGood H ({} : World) evs)
    (hbk : Dict.get? (srun H {} evs).base (blankRoot H) = none)
    (hsm : ∀ h b, Dict.get? (srun H {} evs).base h = some b → b.length < 2 ^ 64) (key : Bytes) :
    (∀ i, i < (srun H {} evs).tries.size →
      getD H (srun H {} evs).base ((srun H {} evs).tries[i]!).root (nibs key) =
        .ok (Hex.get ((srun H {} evs).tries[i]!).tree (nibs key))) ∧
    (∀ r t, (r, t) ∈ (srun H {} evs).roots →
      getD H (srun H {} evs).base r (nibs key) = .ok (Hex.get t (nibs key))) := by
  obtain ⟨hinv, _⟩ := shared_history H evs {} (sinv_empty H) hg
  have hag : DbAgrees (srun H {} evs).base (srun H {} evs).base := fun _ => rfl
  refine ⟨fun i hi => ?_, fun r t hrt => ?_⟩
  · obtain ⟨_, hc, hcomp⟩ := hinv.tries i hi
    exact getD_of_complete H hlen _ hc _ hcomp hbk hsm _ hag (nibs key)
  · obtain ⟨hc, hcomp⟩ := hinv.roots r t hrt
    exact getD_of_complete H hlen { tree := t, root := r, prune := false } hc _ hcomp hbk hsm _ hag (nibs key)

/-- every root a trie has after one of its operations is recorded (so `shared_history_reads` covers it for good) -/
theorem shared_root_recorded (w : World) (hinv : SInv H w) (i : Nat) (k : Bytes) (v : Option Bytes)
    (hg : SGoodEv H w (.op i k v)) :
    ∃ t, (((sstep H w (.op i k v)).tries[i]!).root, t) ∈ (sstep H w (.op i k v)).roots :=
  (shared_op H w hinv i k v hg).2.2.2.2.2.2

end
end PyTrie.Props.C04
