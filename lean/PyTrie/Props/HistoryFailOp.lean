import PyTrie.Props.HistoryFailCommit
import PyTrie.Lemmas.FailOpAux
/-! # C04 / C05 — histories in which a DIRECT `set` / `delete` is cut short by a failing database write (non-pruning trie)

C04: "… and this still holds when the operation in progress is aborted by a failing database write". `C04.failed_op_keeps_roots`
and `set_delete_append_only` are the per-operation statements. Here a fourth kind of step joins the histories of
`Props/HistoryFailCommit.lean`: a direct call whose `(n+1)`-th database write is refused (`failOp k v n`; the harness does this
with a dict that raises — op kind `fset` of the C04 check). `GoodG` adds, for such a step, the no-collision premises of the
call, the two physical side conditions on the database it reads (a first statement without them was reported unprovable by the
proof attempt: the tree-free reader needs them, and an earlier call may have stored a 2^64-byte body) and that it really is cut short (`.error .writeFailed`; otherwise it is an ordinary call).

Theorems: such a step leaves tries and counts exactly as before and loses no database binding — what it wrote before the
refusal stays, as unreachable entries; the between-steps invariant holds again; along whole histories the tree-free and the
tree-carrying world agree call by call, the trie holds the tree of the calls that count, and `get` returns the map model. -/
namespace PyTrie.Props.Free
open PyTrie PyTrie.Hex PyTrie.HexD PyTrie.HexW PyTrie.HexRaw PyTrie.HexFree
open PyTrie.Props.C01 (Op run spec)

inductive HStepG where
  | step (s : HStepF)
  | failOp (k : Bytes) (v : Option Bytes) (n : Nat)

section
variable (H : Bytes → Bytes)

/-- a direct call with the `(n+1)`-th database write refused; the fault is cleared afterwards -/
def stepWG (w : World) : HStepG → List (Except Exn Unit) × World
  | .step s => stepWF H w s
  | .failOp k v n =>
    let (r, w') := ({ w with failAfter := some n } : World).setDel (stdHashing H) (blankRoot H) (.trie 0) k v
    ([r], { w' with failAfter := none })

def stepFG (fw : FWorld) : HStepG → List (Except Exn Unit) × FWorld
  | .step s => stepFF H fw s
  | .failOp k v n =>
    let (r, f') := ({ fw with failAfter := some n } : FWorld).setDel H false k v
    ([r], { f' with failAfter := none })

def runWG (w : World) : List HStepG → List (Except Exn Unit) × World
  | [] => ([], w)
  | s :: rest => let (a, w') := stepWG H w s; let (b, w'') := runWG w' rest; (a ++ b, w'')

def runFG (fw : FWorld) : List HStepG → List (Except Exn Unit) × FWorld
  | [] => ([], fw)
  | s :: rest => let (a, f') := stepFG H fw s; let (b, f'') := runFG f' rest; (a ++ b, f'')

def GoodG : World → List HStepG → Prop
  | _, [] => True
  | w, .step s :: rest => GoodF H w [s] ∧ GoodG (stepWG H w (.step s)).2 rest
  | w, .failOp k v n :: rest =>
    RefSound (stdHashing H) (w.tries[0]!).tree (nibs k) ∧
    NoClobber w.base (opWrites (stdHashing H) (w.tries[0]!) k v) ∧
    Dict.get? w.base (blankRoot H) = none ∧
    (∀ h b, Dict.get? w.base h = some b → b.length < 2 ^ 64) ∧
    (({ w with failAfter := some n } : World).setDel (stdHashing H) (blankRoot H) (.trie 0) k v).1 = .error .writeFailed ∧
    GoodG (stepWG H w (.failOp k v n)).2 rest

def flattenStepsG : List HStepG → List Op
  | [] => []
  | .step s :: r => flattenStepsF [s] ++ flattenStepsG r
  | .failOp _ _ _ :: r => flattenStepsG r

theorem stepWG_fail_snd (w : World) (k : Bytes) (v : Option Bytes) (n : Nat) :
    (stepWG H w (.failOp k v n)).2 =
      { (({ w with failAfter := some n } : World).setDel (stdHashing H) (blankRoot H) (.trie 0) k v).2 with
        failAfter := none } := rfl

theorem stepWG_fail_fst (w : World) (k : Bytes) (v : Option Bytes) (n : Nat) :
    (stepWG H w (.failOp k v n)).1 =
      [(({ w with failAfter := some n } : World).setDel (stdHashing H) (blankRoot H) (.trie 0) k v).1] := rfl

theorem stepFG_fail_snd (fw : FWorld) (k : Bytes) (v : Option Bytes) (n : Nat) :
    (stepFG H fw (.failOp k v n)).2 =
      { (({ fw with failAfter := some n } : FWorld).setDel H false k v).2 with failAfter := none } := rfl

theorem stepFG_fail_fst (fw : FWorld) (k : Bytes) (v : Option Bytes) (n : Nat) :
    (stepFG H fw (.failOp k v n)).1 = [(({ fw with failAfter := some n } : FWorld).setDel H false k v).1] := rfl

theorem runWG_cons (w : World) (s : HStepG) (rest : List HStepG) :
    runWG H w (s :: rest) =
      ((stepWG H w s).1 ++ (runWG H (stepWG H w s).2 rest).1, (runWG H (stepWG H w s).2 rest).2) := rfl

theorem runFG_cons (fw : FWorld) (s : HStepG) (rest : List HStepG) :
    runFG H fw (s :: rest) =
      ((stepFG H fw s).1 ++ (runFG H (stepFG H fw s).2 rest).1, (runFG H (stepFG H fw s).2 rest).2) := rfl

/-- **one direct call cut short by a refused write, non-pruning trie**: tries and counts exactly as before, no binding lost,
    the fault cleared, the between-steps invariant holds again -/
theorem fail_op_step (w : World) (hinv : WInv H false w) (k : Bytes) (v : Option Bytes) (n : Nat)
    (hrs : RefSound (stdHashing H) (w.tries[0]!).tree (nibs k))
    (hnc : NoClobber w.base (opWrites (stdHashing H) (w.tries[0]!) k v))
    (hfail : (({ w with failAfter := some n } : World).setDel (stdHashing H) (blankRoot H) (.trie 0) k v).1 = .error .writeFailed) :
    WInv H false (stepWG H w (.failOp k v n)).2 ∧
    (stepWG H w (.failOp k v n)).2.tries = w.tries ∧
    (stepWG H w (.failOp k v n)).2.counts = w.counts ∧
    Preserved w.base (stepWG H w (.failOp k v n)).2.base := by
  have hpr : (w.tries[0]!).prune = false := hinv.pr
  have heq := World.setDel_trie_error_eq (stdHashing H) (blankRoot H) ({ w with failAfter := some n } : World) 0 k v _ hfail
  have hcnt := opSetDel_noprune_counts (stdHashing H) (blankRoot H) (w.tries[0]!) hpr k v
    (({ w with failAfter := some n } : World).opSt 0)
  have hpres : Preserved w.base _ := opSetDel_noprune_preserved (stdHashing H) (blankRoot H) (w.tries[0]!) hpr k v
    (({ w with failAfter := some n } : World).opSt 0) rfl hnc
  have _ := hrs
  rw [stepWG_fail_snd, heq]
  generalize opSetDel (stdHashing H) (blankRoot H) (w.tries[0]!) k v (({ w with failAfter := some n } : World).opSt 0) = q
    at hcnt hpres
  have hcnt' : w.counts.set! 0 q.1.counts = w.counts := by
    rw [hcnt]; exact array_set!_getElem! w.counts 0
  refine ⟨?_, rfl, hcnt', hpres⟩
  refine ⟨hinv.tsz, by show (w.counts.set! 0 q.1.counts).size = 1; rw [hcnt']; exact hinv.csz, hinv.nb, rfl, hinv.pr,
    hinv.canon, ?_, fun hp => by cases hp⟩
  exact complete_mono (stdHashing H) (blankRoot H) _ _ hpres _ hinv.comp

private theorem applyOp_toOp'' (t : Node) (kv : Bytes × Option Bytes) : C01.applyOp t (toOp kv) = opNode t kv := by
  obtain ⟨k, v⟩ := kv
  cases v <;> rfl

private theorem foldl_inner'' (inner : List (Bytes × Option Bytes)) (t : Node) :
    inner.foldl opNode t = (inner.map toOp).foldl C01.applyOp t := by
  induction inner generalizing t with
  | nil => rfl
  | cons kv rest ih =>
    simp only [List.foldl_cons, List.map_cons]
    rw [applyOp_toOp'', ih]

private theorem stepNode_flatten' (s : HStep) (t : Node) :
    stepNode t s = (flattenSteps [s]).foldl C01.applyOp t := by
  cases s with
  | op k v =>
    simp only [flattenSteps, stepNode, List.foldl_cons, List.foldl_nil]
    rw [applyOp_toOp'']
  | block inner raised =>
    cases raised with
    | false =>
      simp only [flattenSteps, stepNode, List.append_nil]
      rw [foldl_inner'']
    | true =>
      simp only [flattenSteps, stepNode, List.foldl_nil]

/-- one step of a history with failing commits: invariant and tree -/
private theorem stepF_world (w : World) (hinv : WInv H false w) (s : HStepF) (hg : GoodF H w [s]) :
    WInv H false (stepWF H w s).2 ∧
    ((stepWF H w s).2.tries[0]!).tree = (flattenStepsF [s]).foldl C01.applyOp (w.tries[0]!).tree := by
  cases s with
  | step s =>
    obtain ⟨hg1, _⟩ := hg
    obtain ⟨h3, _, h5⟩ := step_tree H false w hinv s [] hg1
    refine ⟨h3, ?_⟩
    show ((stepW H w s).2.tries[0]!).tree = _
    rw [h5, stepNode_flatten']
    simp only [flattenStepsF, List.append_nil]
  | failBlock inner n =>
    obtain ⟨hg1, hg2, _⟩ := hg
    obtain ⟨f1, f2, _, _⟩ := fail_block_step H w hinv inner n hg1 hg2
    refine ⟨f1, ?_⟩
    rw [f2]
    rfl

/-- one step of a history with failing commits: lockstep -/
private theorem stepF_lock (hlen : ∀ b, (H b).length = 32) (fw : FWorld) (w : World) (hs : Sim fw w)
    (hinv : WInv H false w) (s : HStepF) (hg : GoodF H w [s]) :
    (stepFF H fw s).1 = (stepWF H w s).1 ∧ Sim (stepFF H fw s).2 (stepWF H w s).2 := by
  cases s with
  | step s =>
    obtain ⟨hg1, _⟩ := hg
    obtain ⟨h1, h2, _, _⟩ := step_lockstep H hlen false fw w hs hinv s [] hg1
    exact ⟨h1, h2⟩
  | failBlock inner n =>
    obtain ⟨hg1, hg2, _⟩ := hg
    have hs1 := sim_batchBegin fw w hs hinv.nb
    have hb1 := binv_begin H false w hinv
    obtain ⟨j1, j2, _⟩ := inner_lockstep H hlen false w inner _ _ hs1 hb1 hg1
    have j3 := sim_setFail _ _ j2 (some n)
    obtain ⟨e1, e2⟩ := sim_batchEnd _ _ j3 false
    have e3 := sim_setFail _ _ e2 none
    refine ⟨?_, ?_⟩
    · rw [stepFF_fail_fst, stepWF_fail_fst, j1, e1]
    · rw [stepFF_fail_snd, stepWF_fail_snd]; exact e3

/-- invariant and tree along a history with failing direct writes -/
private theorem run_worldG (steps : List HStepG) :
    ∀ (w : World), WInv H false w → GoodG H w steps →
      WInv H false (runWG H w steps).2 ∧
      ((runWG H w steps).2.tries[0]!).tree = (flattenStepsG steps).foldl C01.applyOp (w.tries[0]!).tree := by
  induction steps with
  | nil => intro w hinv _; exact ⟨hinv, rfl⟩
  | cons s rest ih =>
    intro w hinv hg
    rw [runWG_cons]
    cases s with
    | step s =>
      obtain ⟨hg1, hg2⟩ := hg
      obtain ⟨h3, h5⟩ := stepF_world H w hinv s hg1
      obtain ⟨i3, i4⟩ := ih (stepWF H w s).2 h3 hg2
      refine ⟨i3, ?_⟩
      show ((runWG H (stepWF H w s).2 rest).2.tries[0]!).tree = _
      rw [i4, h5]
      simp only [flattenStepsG, List.foldl_append]
    | failOp k v n =>
      obtain ⟨hg1, hg2, _, _, hg3, hg4⟩ := hg
      obtain ⟨f1, f2, _, _⟩ := fail_op_step H w hinv k v n hg1 hg2 hg3
      obtain ⟨i3, i4⟩ := ih _ f1 hg4
      refine ⟨i3, ?_⟩
      show ((runWG H (stepWG H w (.failOp k v n)).2 rest).2.tries[0]!).tree = _
      rw [i4, f2]
      rfl

/-- one refused direct call: same outcome, still in step (needs the two physical side conditions) -/
private theorem fail_op_lock (hlen : ∀ b, (H b).length = 32) (fw : FWorld) (w : World) (hs : Sim fw w)
    (hinv : WInv H false w) (k : Bytes) (v : Option Bytes) (n : Nat)
    (hbk : Dict.get? w.base (blankRoot H) = none)
    (hsm : ∀ h b, Dict.get? w.base h = some b → b.length < 2 ^ 64) :
    (stepFG H fw (.failOp k v n)).1 = (stepWG H w (.failOp k v n)).1 ∧
    Sim (stepFG H fw (.failOp k v n)).2 (stepWG H w (.failOp k v n)).2 := by
  have hs0 := sim_setFail fw w hs (some n)
  obtain ⟨ho, hs'⟩ := sim_setDel_outer H hlen _ _ hs0 k v hinv.canon hinv.comp hbk hsm
  have hs'' := sim_setFail _ _ hs' none
  refine ⟨?_, ?_⟩
  · rw [stepFG_fail_fst, stepWG_fail_fst, outcome_eq _ _ ho]
  · rw [stepFG_fail_snd, stepWG_fail_snd]; exact hs''

/-- lockstep along a history with failing direct writes, under the side conditions -/
private theorem run_lockG (hlen : ∀ b, (H b).length = 32) (steps : List HStepG) :
    ∀ (fw : FWorld) (w : World), Sim fw w → WInv H false w → GoodG H w steps →
      (runFG H fw steps).1 = (runWG H w steps).1 ∧ Sim (runFG H fw steps).2 (runWG H w steps).2 := by
  induction steps with
  | nil => intro fw w hs _ _; exact ⟨rfl, hs⟩
  | cons s rest ih =>
    intro fw w hs hinv hg
    rw [runWG_cons, runFG_cons]
    cases s with
    | step s =>
      obtain ⟨hg1, hg2⟩ := hg
      obtain ⟨h3, _⟩ := stepF_world H w hinv s hg1
      obtain ⟨h1, h2⟩ := stepF_lock H hlen fw w hs hinv s hg1
      obtain ⟨i1, i2⟩ := ih (stepFF H fw s).2 (stepWF H w s).2 h2 h3 hg2
      refine ⟨?_, i2⟩
      show (stepFF H fw s).1 ++ _ = (stepWF H w s).1 ++ _
      rw [h1]
      exact congrArg _ i1
    | failOp k v n =>
      obtain ⟨hg1, hg2, hbk, hsm, hg3, hg4⟩ := hg
      obtain ⟨f1, _, _, _⟩ := fail_op_step H w hinv k v n hg1 hg2 hg3
      obtain ⟨h1, h2⟩ := fail_op_lock H hlen fw w hs hinv k v n hbk hsm
      obtain ⟨i1, i2⟩ := ih _ _ h2 f1 hg4
      exact ⟨by rw [h1, i1], i2⟩

/-- **whole histories with failing direct writes and failing commits, tree-carrying world** -/
theorem history_fail_op_world (steps : List HStepG) (hgood : GoodG H (freshW H false) steps) :
    WInv H false (runWG H (freshW H false) steps).2 ∧
    ((runWG H (freshW H false) steps).2.tries[0]!).tree = run (flattenStepsG steps) ∧
    Complete (stdHashing H) (blankRoot H) (runWG H (freshW H false) steps).2.base ((runWG H (freshW H false) steps).2.tries[0]!) := by
  obtain ⟨hinv, htree⟩ := run_worldG H steps _ (winv_fresh H false) hgood
  exact ⟨hinv, htree, hinv.comp⟩

/-- **the tree-free world agrees call by call and ends in the same state** -/
theorem history_fail_op_lockstep (hlen : ∀ b, (H b).length = 32) (steps : List HStepG)
    (hgood : GoodG H (freshW H false) steps) :
    (runFG H (FWorld.init H false) steps).1 = (runWG H (freshW H false) steps).1 ∧
    Sim (runFG H (FWorld.init H false) steps).2 (runWG H (freshW H false) steps).2 := by
  exact run_lockG H hlen steps _ _ (sim_fresh H false) (winv_fresh H false) hgood

/-- **still a correct map afterwards** -/
theorem history_fail_op_get (hlen : ∀ b, (H b).length = 32) (steps : List HStepG)
    (hgood : GoodG H (freshW H false) steps)
    (hbk : Dict.get? (runFG H (FWorld.init H false) steps).2.base (blankRoot H) = none)
    (hsm : ∀ h b, Dict.get? (runFG H (FWorld.init H false) steps).2.base h = some b → b.length < 2 ^ 64) (key : Bytes) :
    (runFG H (FWorld.init H false) steps).2.get H false key = .ok (spec (flattenStepsG steps) key) := by
  obtain ⟨hinv, htree⟩ := run_worldG H steps _ (winv_fresh H false) hgood
  obtain ⟨hbase, _, _, _, hout, _, _⟩ := (history_fail_op_lockstep H hlen steps hgood).2
  rw [hbase] at hbk hsm
  have hcanon : Canon ((runWG H (freshW H false) steps).2.tries[0]!).tree := hinv.canon
  have hg := PyTrie.HexRaw.getD_of_complete H hlen _ hcanon _ hinv.comp hbk hsm
    (runWG H (freshW H false) steps).2.base (fun _ => rfl) (nibs key)
  show freeGet H (runFG H (FWorld.init H false) steps).2.outer key (runFG H (FWorld.init H false) steps).2.opSt = _
  unfold freeGet
  have hdb : storeDb (runFG H (FWorld.init H false) steps).2.opSt.store = (runWG H (freshW H false) steps).2.base := hbase
  rw [hdb, hout]
  have e0 : (toFree ((runWG H (freshW H false) steps).2.tries[0]!)).root =
      ((runWG H (freshW H false) steps).2.tries[0]!).root := rfl
  have htree' : ((runWG H (freshW H false) steps).2.tries[0]!).tree = run (flattenStepsG steps) := htree
  rw [e0, hg, htree', C01.run_get]

end
end PyTrie.Props.Free
