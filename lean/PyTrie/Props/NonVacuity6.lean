import PyTrie.Props.NonVacuity5
import PyTrie.Props.C09
/-! # Non-vacuity, part 6: the pruning history as a `ReachVersions` history; reading earlier versions

`C09.earlier_versions_consistent` and `C09.old_version_read_truthful` are stated over `ReachVersions` (the premises of
`ReachOpsNC` plus, per step, `WritesAgree` of the step's writes with every earlier version and two side conditions on the
base after the step). Here: a Boolean checker for `WritesAgree` (only the tree itself and its finitely many subnodes
matter), a checker for `ReachVersions`, the pruning history `hist5` of `NonVacuity4.lean` as a witness, and the two
theorems applied to it — including an earlier version one of whose hashed nodes has been pruned: reading it through the
final pruned database reports exactly that node as missing. -/
namespace PyTrie.Props.NonVacuity6
open PyTrie PyTrie.Hex PyTrie.Hex.Node PyTrie.HexD
open PyTrie.Props.NonVacuity PyTrie.Props.NonVacuity2 PyTrie.Props.NonVacuity4
open PyTrie.HexW PyTrie.HexRaw
open PyTrie.HexFree (ReachVersions WritesAgree)
open PyTrie.Props.C01 (Op run spec applyOp)

/-! ## 1. The subnodes of a tree -/

/-- all proper subnodes of a tree (children at all 16 indices of a branch, blank ones included) -/
def subnodes : Node → List Node
  | blank => []
  | leaf _ _ => []
  | ext _ c => c :: subnodes c
  | branch ch _ => (List.finRange 16).flatMap fun i => ch i :: subnodes (ch i)

/-- whatever `nodeAt` reaches is the tree itself or one of its subnodes -/
theorem nodeAt_mem_subnodes (t : Node) (q : Path) (m : Node) (h : nodeAt t q = some m) :
    m = t ∨ m ∈ subnodes t := by
  induction t generalizing q with
  | blank =>
    cases q with
    | nil => simp only [nodeAt, Option.some.injEq] at h; exact Or.inl h.symm
    | cons a r => simp [nodeAt] at h
  | leaf p v =>
    cases q with
    | nil => simp only [nodeAt, Option.some.injEq] at h; exact Or.inl h.symm
    | cons a r => simp [nodeAt] at h
  | ext p c ih =>
    cases q with
    | nil => simp only [nodeAt, Option.some.injEq] at h; exact Or.inl h.symm
    | cons a r =>
      simp only [nodeAt] at h
      split at h
      · right
        simp only [subnodes, List.mem_cons]
        exact ih _ h
      · cases h
  | branch ch v ih =>
    cases q with
    | nil => simp only [nodeAt, Option.some.injEq] at h; exact Or.inl h.symm
    | cons a r =>
      simp only [nodeAt] at h
      right
      simp only [subnodes, List.mem_flatMap, List.mem_finRange, true_and, List.mem_cons]
      exact ⟨a, ih a _ h⟩

theorem nodeAt_mem (t : Node) (q : Path) (m : Node) (h : nodeAt t q = some m) : m ∈ t :: subnodes t := by
  rcases nodeAt_mem_subnodes t q m h with h | h
  · exact h ▸ List.mem_cons_self ..
  · exact List.mem_cons_of_mem _ h

/-! ## 2. Boolean checkers for `WritesAgree` and `ReachVersions` -/
section Checker

variable (H : Bytes → Bytes)

/-- every write under the hash of `m` carries the encoding of `m` -/
def agreeNodeB (ws : List (Hash × Bytes)) (m : Node) : Bool :=
  ws.all fun e => !(e.1 == hashOf H m) || e.2 == enc H m

/-- `WritesAgree` as a test: the tree itself, and every hashed node among its subnodes -/
def writesAgreeB (ws : List (Hash × Bytes)) (t0 : Node) : Bool :=
  agreeNodeB H ws t0 && (subnodes t0).all fun m => !(isHashed H m) || agreeNodeB H ws m

theorem agreeNode_of_B (ws : List (Hash × Bytes)) (m : Node) (h : agreeNodeB H ws m = true) (b : Bytes)
    (hm : (hashOf H m, b) ∈ ws) : b = enc H m := by
  simp only [agreeNodeB, List.all_eq_true, Bool.or_eq_true, Bool.not_eq_true', beq_eq_false_iff_ne, beq_iff_eq] at h
  rcases h _ hm with h1 | h1
  · exact absurd rfl h1
  · exact h1

/-- **soundness of the `WritesAgree` test** -/
theorem writesAgree_of_B (ws : List (Hash × Bytes)) (t0 : Node) (h : writesAgreeB H ws t0 = true) :
    WritesAgree H ws t0 := by
  simp only [writesAgreeB, Bool.and_eq_true, List.all_eq_true, Bool.or_eq_true, Bool.not_eq_true'] at h
  intro m b hm hcase
  rcases hcase with rfl | ⟨hh, q, hq⟩
  · exact agreeNode_of_B H ws m h.1 b hm
  · rcases nodeAt_mem_subnodes t0 q m hq with rfl | hs
    · exact agreeNode_of_B H ws m h.1 b hm
    · rcases h.2 m hs with h1 | h1
      · rw [hh] at h1; cases h1
      · exact agreeNode_of_B H ws m h1 b hm

/-- the premises of one step of `ReachVersions`, as a test: those of `ReachOpsNC` (`stepOkNCB`), `WritesAgree` with every
    version `run (pre.take i)`, `i ≤ pre.length`, and the two side conditions on the base after the step -/
def stepOkVB (prune : Bool) (pre : List Op) (st : TrieSt × OpSt) (o : Op) : Bool :=
  stepOkNCB (stdHashing H) (blankRoot H) prune st o &&
  (List.range (pre.length + 1)).all (fun i =>
    writesAgreeB H (opWrites (stdHashing H) st.1 (opKey o) (opVal o)) (run (pre.take i))) &&
  (Dict.get? (stepW (stdHashing H) (blankRoot H) st o).2.store.base (blankRoot H)).isNone &&
  (stepW (stdHashing H) (blankRoot H) st o).2.store.base.all (fun e => decide (e.2.length < 2 ^ 64))

/-- all steps of a history pass the test; `pre` = the operations already executed -/
def allOkVB (prune : Bool) : List Op → TrieSt × OpSt → List Op → Bool
  | _, _, [] => true
  | pre, st, o :: r =>
    stepOkVB H prune pre st o && allOkVB prune (pre ++ [o]) (stepW (stdHashing H) (blankRoot H) st o) r

theorem reachVersions_of_allOk (prune : Bool) (pre : List Op) (st : TrieSt × OpSt) (ops : List Op)
    (hr : ReachVersions H prune pre st.1 st.2) (h : allOkVB H prune pre st ops = true) :
    ReachVersions H prune (pre ++ ops) (ops.foldl (stepW (stdHashing H) (blankRoot H)) st).1
      (ops.foldl (stepW (stdHashing H) (blankRoot H)) st).2 := by
  induction ops generalizing pre st with
  | nil => simpa using hr
  | cons o r ih =>
    simp only [allOkVB, Bool.and_eq_true] at h
    obtain ⟨hstep, hrest⟩ := h
    simp only [stepOkVB, Bool.and_eq_true] at hstep
    obtain ⟨⟨⟨hnc, hwa⟩, hbk⟩, hsm⟩ := hstep
    simp only [List.all_eq_true, List.mem_range] at hwa
    simp only [Option.isNone_iff_eq_none] at hbk
    obtain ⟨h1, h2, h3, h4⟩ := stepOkNC_spec (stdHashing H) (blankRoot H) prune st o hnc
    have hstep' := ReachVersions.step (H := H) (prune := prune) pre st.1 st.2 o _ hr h1 h2 h3
      (fun i hi => writesAgree_of_B H _ _ (hwa i (by omega))) hbk
      (fun hh b hg => bodies_short _ (2 ^ 64) hsm hh b hg) h4
    have := ih (pre ++ [o]) (stepW (stdHashing H) (blankRoot H) st o) hstep' hrest
    simpa using this

/-- **a history all of whose steps pass the test is a `ReachVersions` history** -/
theorem reachVersions_of_check (prune : Bool) (ops : List Op)
    (h : allOkVB H prune [] (initW (blankRoot H) prune) ops = true) :
    ReachVersions H prune ops (runW (stdHashing H) (blankRoot H) prune ops).1
      (runW (stdHashing H) (blankRoot H) prune ops).2 := by
  simpa [runW] using reachVersions_of_allOk H prune [] (initW (blankRoot H) prune) ops ReachVersions.init h

end Checker

/-! ## 3. The pruning history `hist5` is a `ReachVersions` history -/

theorem hist5_okV_p : allOkVB toyH true [] (initW (blankRoot toyH) true) hist5 = true := by
  decide +kernel

/-- **`ReachVersions` with pruning on** for the five-operation history of `NonVacuity4.lean` (same final state `Tp`, `sp`) -/
theorem hist5_versions_p : ReachVersions toyH true hist5 Tp sp :=
  reachVersions_of_check toyH true hist5 hist5_okV_p

/-! ## 4. `earlier_versions_consistent` on the witness -/

/-- **`C09.earlier_versions_consistent` applies, for every `i ≤ 5`**: every version of the run — the empty trie, the four
    intermediate tries, the final one — is partially consistent with the final pruned database -/
theorem hist5_versions_consistent (i : Nat) (hi : i ≤ 5) :
    RootPartial toyH prunedBase (rootHash toyH (run (hist5.take i))) (run (hist5.take i)) ∧
    PartialD toyH prunedBase (run (hist5.take i)) :=
  C09.earlier_versions_consistent toyH true hist5 Tp sp hist5_versions_p i hi

/-- the versions of the run: blank; one hashed leaf; `t1'` (extension over the branch `t1br`); the same with `longW` for
    `longV`; with a third (hashed) leaf; the final tree `tEnd` -/
def v3br : Node := branch (upd (upd emptyCh 2 (leaf [] longW)) 3 (leaf [] [5])) []
def v4br : Node := branch (upd (upd (upd emptyCh 2 (leaf [] longW)) 3 (leaf [] [5])) 4 (leaf [] longV)) []

theorem hist5_versions :
    run (hist5.take 0) = blank ∧ run (hist5.take 1) = leaf (nibs k1) longV ∧ run (hist5.take 2) = t1' ∧
    run (hist5.take 3) = ext [1] v3br ∧ run (hist5.take 4) = ext [1] v4br ∧ run (hist5.take 5) = tEnd :=
  ⟨rfl, sameB_eq _ _ (by decide +kernel), sameB_eq _ _ (by decide +kernel), sameB_eq _ _ (by decide +kernel),
   sameB_eq _ _ (by decide +kernel), sameB_eq _ _ (by decide +kernel)⟩

/-- the roots and branches of versions 1–4 are gone from the final pruned database (so for `i = 1 … 4` the statement above
    is about a tree some of whose hashed nodes are absent) -/
theorem earlier_nodes_pruned :
    Dict.contains prunedBase (hashOf toyH (leaf (nibs k1) longV)) = false ∧
    Dict.contains prunedBase (hashOf toyH t1') = false ∧ Dict.contains prunedBase (hashOf toyH t1br) = false ∧
    Dict.contains prunedBase (hashOf toyH (ext [1] v3br)) = false ∧ Dict.contains prunedBase (hashOf toyH v3br) = false ∧
    Dict.contains prunedBase (hashOf toyH (ext [1] v4br)) = false ∧ Dict.contains prunedBase (hashOf toyH v4br) = false := by
  decide +kernel

/-! ## 5. `old_version_read_truthful` on the witness -/

/-- **`C09.old_version_read_truthful` applies**, for every version `i ≤ 5`, every path and enough fuel -/
theorem hist5_read (i : Nat) (hi : i ≤ 5) (p : Path) (fuel : Nat) (hf : p.length < fuel) :
    traverseOutD toyH prunedBase fuel (toItem toyH (run (hist5.take i))) p =
      match firstMissingRead toyH prunedBase (run (hist5.take i)) p [] with
      | some (h, pre) => .error (.missing h pre)
      | none => .ok (TravOut.toD toyH (traverseOut (run (hist5.take i)) p)) :=
  C09.old_version_read_truthful toyH toyH_len true hist5 Tp sp hist5_versions_p i hi p fuel hf

/-- (a) the final version (`i = 5`): every node on the path of `k1` (hashed branch, hashed leaf) is in the pruned database … -/
theorem read_v5_none : firstMissingRead toyH prunedBase (run (hist5.take 5)) (nibs k1) [] = none := by
  decide +kernel

/-- … so the read returns what that version says: the leaf holding `longW` -/
theorem read_v5_ok (fuel : Nat) (hf : 2 < fuel) :
    traverseOutD toyH prunedBase fuel (toItem toyH (run (hist5.take 5))) (nibs k1) =
      .ok (.node (Ann.toD toyH (annotate (leaf [] longW)))) := by
  rw [hist5_read 5 (by decide) (nibs k1) fuel hf, read_v5_none, hist5_versions.2.2.2.2.2]
  rfl

/-- (b) version 2 (`t1'`: extension over the hashed branch `t1br`): its branch has been pruned; the first read the
    final database cannot answer on the path of `k1` is that branch, after the nibble `1` -/
theorem read_v2_missing :
    firstMissingRead toyH prunedBase (run (hist5.take 2)) (nibs k1) [] = some (hashOf toyH t1br, [1]) := by
  decide +kernel

/-- **reading version 2 through the final pruned database reports exactly the pruned branch** -/
theorem read_v2_error (fuel : Nat) (hf : 2 < fuel) :
    traverseOutD toyH prunedBase fuel (toItem toyH (run (hist5.take 2))) (nibs k1) =
      .error (.missing (hashOf toyH t1br) [1]) := by
  rw [hist5_read 2 (by decide) (nibs k1) fuel hf, read_v2_missing]

/-- the same for every key of the history and for versions 2, 3, 4: the read stops at the pruned branch of that version -/
theorem read_old_missing :
    (∀ k ∈ [k1, k2, k3], firstMissingRead toyH prunedBase (run (hist5.take 2)) (nibs k) [] = some (hashOf toyH t1br, [1])) ∧
    (∀ k ∈ [k1, k2, k3], firstMissingRead toyH prunedBase (run (hist5.take 3)) (nibs k) [] = some (hashOf toyH v3br, [1])) ∧
    (∀ k ∈ [k1, k2, k3], firstMissingRead toyH prunedBase (run (hist5.take 4)) (nibs k) [] = some (hashOf toyH v4br, [1])) := by
  decide +kernel

/-- cross-check by direct evaluation of the raw-level reader (no theorem involved) -/
theorem read_v2_error_eval :
    traverseOutD toyH prunedBase 3 (toItem toyH (run (hist5.take 2))) (nibs k1) =
      .error (.missing (hashOf toyH t1br) [1]) := by
  have h : (match traverseOutD toyH prunedBase 3 (toItem toyH (run (hist5.take 2))) (nibs k1) with
      | .error (.missing h pre) => h == hashOf toyH t1br && pre == [1]
      | _ => false) = true := by decide +kernel
  split at h
  · next h' pre heq =>
    simp only [Bool.and_eq_true, beq_iff_eq] at h
    rw [heq, h.1, h.2]
  · cases h

/-! ## 6. A strictly earlier version that is still fully readable

One more operation on `hist5`: `set k4 [6]` with `k4 = [0x25]` (first nibble 2). The root extension `ext [1] b` becomes a
branch whose child 1 is the **same** hashed branch `b`: the old root `tEnd` is pruned, but every node below it stays. So
version 5 of this six-operation history is a strictly earlier version all of whose fetched nodes are still present, while
version 2 still has its branch pruned. -/

def k4 : Bytes := [0x25]

def hist6 : List Op := hist5 ++ [.set k4 [6]]

theorem hist6_okV_p : allOkVB toyH true [] (initW (blankRoot toyH) true) hist6 = true := by
  decide +kernel

def Tp6 : TrieSt := (runW toyHs (blankRoot toyH) true hist6).1
def sp6 : OpSt := (runW toyHs (blankRoot toyH) true hist6).2
def prunedBase6 : Dict Bytes := sp6.store.base

theorem hist6_versions_p : ReachVersions toyH true hist6 Tp6 sp6 :=
  reachVersions_of_check toyH true hist6 hist6_okV_p

theorem hist6_versions_consistent (i : Nat) (hi : i ≤ 6) :
    RootPartial toyH prunedBase6 (rootHash toyH (run (hist6.take i))) (run (hist6.take i)) ∧
    PartialD toyH prunedBase6 (run (hist6.take i)) :=
  C09.earlier_versions_consistent toyH true hist6 Tp6 sp6 hist6_versions_p i hi

theorem hist6_read (i : Nat) (hi : i ≤ 6) (p : Path) (fuel : Nat) (hf : p.length < fuel) :
    traverseOutD toyH prunedBase6 fuel (toItem toyH (run (hist6.take i))) p =
      match firstMissingRead toyH prunedBase6 (run (hist6.take i)) p [] with
      | some (h, pre) => .error (.missing h pre)
      | none => .ok (TravOut.toD toyH (traverseOut (run (hist6.take i)) p)) :=
  C09.old_version_read_truthful toyH toyH_len true hist6 Tp6 sp6 hist6_versions_p i hi p fuel hf

/-- version 5 is `tEnd`, it is not the final version, and its root has been pruned while its branch and leaves are kept -/
theorem hist6_v5 :
    run (hist6.take 5) = tEnd ∧ sameB (run (hist6.take 6)) tEnd = false ∧ prunedBase6.length = 4 ∧
    Dict.contains prunedBase6 (hashOf toyH tEnd) = false ∧
    Dict.contains prunedBase6 (hashOf toyH (branch (upd (upd emptyCh 2 (leaf [] longW)) 4 (leaf [] longV)) [])) = true ∧
    Dict.contains prunedBase6 (hashOf toyH (leaf [] longW)) = true ∧
    Dict.contains prunedBase6 (hashOf toyH (leaf [] longV)) = true :=
  ⟨sameB_eq _ _ (by decide +kernel), by decide +kernel, by decide +kernel, by decide +kernel, by decide +kernel,
   by decide +kernel, by decide +kernel⟩

/-- (a) the strictly earlier version 5: nothing on the paths of its keys is missing from the final pruned database … -/
theorem read6_v5_none :
    ∀ k ∈ [k1, k2, k3, k4], firstMissingRead toyH prunedBase6 (run (hist6.take 5)) (nibs k) [] = none := by
  decide +kernel

/-- … so reading it returns what it says: for `k1`, the leaf holding `longW` (fetched through the kept hashed branch) -/
theorem read6_v5_ok (fuel : Nat) (hf : 2 < fuel) :
    traverseOutD toyH prunedBase6 fuel (toItem toyH (run (hist6.take 5))) (nibs k1) =
      .ok (.node (Ann.toD toyH (annotate (leaf [] longW)))) := by
  rw [hist6_read 5 (by decide) (nibs k1) fuel hf, read6_v5_none k1 (by simp), hist6_v5.1]
  rfl

/-- (b) version 2 in the same history: its branch is pruned, and the read says so -/
theorem read6_v2_missing :
    firstMissingRead toyH prunedBase6 (run (hist6.take 2)) (nibs k1) [] = some (hashOf toyH t1br, [1]) := by
  decide +kernel

theorem read6_v2_error (fuel : Nat) (hf : 2 < fuel) :
    traverseOutD toyH prunedBase6 fuel (toItem toyH (run (hist6.take 2))) (nibs k1) =
      .error (.missing (hashOf toyH t1br) [1]) := by
  rw [hist6_read 2 (by decide) (nibs k1) fuel hf, read6_v2_missing]

end PyTrie.Props.NonVacuity6

section Axioms
open PyTrie.Props.NonVacuity6
end Axioms
