import PyTrie.Lemmas.HexNodeAt
import PyTrie.Lemmas.HexDbProofs
import PyTrie.Lemmas.RlpRoundTrip
/-! # C03 — hexary Merkle proofs are complete and sound

`getProof` mirrors `_get_proof` on trees; `HexD.getFromProof` mirrors `get_from_proof` on a database
of *encoded* nodes built from an arbitrary node list (`proofDb`), reading through `get_node`,
`_traverse_from` and `_get` (Layer D). -/
namespace PyTrie.Props.C03
open PyTrie PyTrie.Hex PyTrie.Hex.Node

/-- `get_proof(key)` contains only nodes on that key's path: every node of the proof is the subtree
    of the trie at some nibble prefix of the key (extension paths of an honest trie are non-empty) -/
theorem proof_on_path (t : Node) (hc : Canon t) (k : Path) (n : Node) (h : n ∈ getProof t k) :
    ∃ p, p <+: k ∧ nodeAt t p = some n := by
  induction t generalizing k with
  | blank => simp [getProof] at h
  | leaf p v =>
    simp [getProof] at h; subst h
    exact ⟨[], List.nil_prefix, rfl⟩
  | ext p c ih =>
    simp only [getProof] at h
    obtain ⟨hp, _, hcc⟩ := hc
    split at h
    · next hpk =>
      rcases List.mem_cons.1 h with rfl | h'
      · exact ⟨[], List.nil_prefix, rfl⟩
      · obtain ⟨q, hq, hn⟩ := ih hcc _ h'
        obtain ⟨r, rfl⟩ := hpk
        refine ⟨p ++ q, ?_, nodeAt_ext_append p c q n hn hp⟩
        simp at hq
        exact (List.prefix_append_right_inj p).2 hq
    · simp at h; subst h
      exact ⟨[], List.nil_prefix, rfl⟩
  | branch ch v ih =>
    cases k with
    | nil =>
      simp [getProof] at h; subst h
      exact ⟨[], List.nil_prefix, rfl⟩
    | cons a k =>
      simp only [getProof] at h
      rcases List.mem_cons.1 h with rfl | h'
      · exact ⟨[], List.nil_prefix, rfl⟩
      · obtain ⟨q, hq, hn⟩ := ih a (hc.1 a) k h'
        exact ⟨a :: q, List.cons_prefix_cons.2 ⟨rfl, hq⟩, by simpa [nodeAt] using hn⟩

/-- the first node of a non-empty proof is the root node itself -/
theorem proof_head (t : Node) (k : Path) (hb : isBlank t = false) : (getProof t k).head? = some t := by
  cases t with
  | blank => simp [isBlank] at hb
  | leaf p v => simp [getProof]
  | ext p c => simp only [getProof]; split <;> simp
  | branch ch v => cases k <;> simp [getProof]

end PyTrie.Props.C03

/-! ## Layer D: `get_from_proof` on arbitrary node lists -/
namespace PyTrie.Props.C03
open PyTrie PyTrie.Hex PyTrie.Hex.Node PyTrie.HexD

variable (H : Bytes → Bytes)

theorem proofDb_foldl_mem (ns : List Item) (acc : Db) (e : Hash × Bytes) :
    e ∈ ns.foldl (fun db n => if n == Item.str [] then db else (H (rlp n), rlp n) :: db) acc ↔
    e ∈ acc ∨ ∃ it ∈ ns, (it == Item.str []) = false ∧ e = (H (rlp it), rlp it) := by
  induction ns generalizing acc with
  | nil => simp
  | cons n ns ih =>
    simp only [List.foldl_cons, ih]
    by_cases hn : (n == Item.str []) = true
    · simp [hn]
    · have hn' : (n == Item.str []) = false := by simpa using hn
      simp only [hn', Bool.false_eq_true, ↓reduceIte, List.mem_cons]
      constructor
      · rintro ((rfl | h) | ⟨it, hit, hb, he⟩)
        · exact Or.inr ⟨n, by simp, hn', rfl⟩
        · exact Or.inl h
        · exact Or.inr ⟨it, by simp [hit], hb, he⟩
      · rintro (h | ⟨it, hit, hb, he⟩)
        · exact Or.inl (Or.inr h)
        · rcases hit with rfl | hit'
          · exact Or.inl (Or.inl he)
          · exact Or.inr ⟨it, hit', hb, he⟩

/-- every entry of the proof database is an offered node stored under the hash of its encoding -/
theorem mem_proofDb (ns : List Item) (e : Hash × Bytes) :
    e ∈ proofDb H ns ↔ ∃ it ∈ ns, (it == Item.str []) = false ∧ e = (H (rlp it), rlp it) := by
  unfold proofDb
  rw [proofDb_foldl_mem]
  simp

theorem lookup_some_mem (db : Db) (h : Hash) (b : Bytes) (hl : lookup db h = some b) : (h, b) ∈ db := by
  unfold lookup at hl
  cases hf : db.find? (fun e => e.1 == h) with
  | none => simp [hf] at hl
  | some e =>
    simp [hf] at hl
    have hm := List.mem_of_find?_eq_some hf
    have hp := List.find?_some hf
    simp at hp
    subst hl
    have : e = (h, e.2) := by cases e; simp_all
    rw [← this]; exact hm

theorem lookup_none_of_not_mem (db : Db) (h : Hash) (hn : ∀ b, (h, b) ∉ db) : lookup db h = none := by
  cases hl : lookup db h with
  | none => rfl
  | some b => exact absurd (lookup_some_mem db h b hl) (hn b)

theorem lookup_of_functional (db : Db) (h : Hash) (b : Bytes) (hm : (h, b) ∈ db)
    (hf : ∀ b', (h, b') ∈ db → b' = b) : lookup db h = some b := by
  cases hl : lookup db h with
  | none =>
    unfold lookup at hl
    simp at hl
    exact absurd rfl (hl h b hm)
  | some b' => rw [hf b' (lookup_some_mem db h b' hl)]

theorem toItem_ne_blank (n : Node) (hb : isBlank n = false) : (toItem H n == Item.str []) = false := by
  cases n with
  | blank => simp [isBlank] at hb
  | leaf p v => simp [toItem, BEq.beq, Item.beq]
  | ext p c => simp [toItem, BEq.beq, Item.beq]
  | branch ch v => simp [toItem, BEq.beq, Item.beq]

theorem isBlank_of_mem_getProof (t : Node) (k : Path) (n : Node) (h : n ∈ getProof t k) : isBlank n = false := by
  induction t generalizing k with
  | blank => simp [getProof] at h
  | leaf p v => simp [getProof] at h; subst h; rfl
  | ext p c ih =>
    simp only [getProof] at h
    split at h
    · rcases List.mem_cons.1 h with rfl | h'
      · rfl
      · exact ih _ h'
    · simp at h; subst h; rfl
  | branch ch v ih =>
    cases k with
    | nil => simp [getProof] at h; subst h; rfl
    | cons a k =>
      simp only [getProof] at h
      rcases List.mem_cons.1 h with rfl | h'
      · rfl
      · exact ih a k h'

/-- the run-level "no collision" predicate of an offered node list against the honest path nodes:
    an offered node hashing to a stored path node's hash *is* that node's encoding, and no stored
    path node hashes to the blank root. False only if the run exhibits a hash collision. -/
def NoCollision (t : Node) (k : Path) (ns : List Item) : Prop :=
  ∀ n ∈ getProof t k, Stored H t n →
    hashOf H n ≠ blankRoot H ∧ ∀ it ∈ ns, H (rlp it) = hashOf H n → rlp it = enc H n

/-- **soundness**: whatever node list is offered against the root of an honest trie — nodes removed,
    altered, reordered, duplicated, taken from elsewhere — `get_from_proof` returns the value the trie
    really holds or raises `BadTrieProof`; it never returns another value and raises nothing else -/
theorem proof_sound (hlen : ∀ b, (H b).length = 32) (t : Node) (hc : Canon t) (key : Bytes)
    (hdec : DecOkOn H t (nibs key)) (ns : List Item) (hnc : NoCollision H t (nibs key) ns) :
    getFromProof H (rootHash H t) key ns = .value (get t (nibs key)) ∨
    getFromProof H (rootHash H t) key ns = .badProof := by
  have hcomp : ∀ n ∈ getProof t (nibs key), Stored H t n → Compatible H (proofDb H ns) n := by
    intro n hn hs
    obtain ⟨h1, h2⟩ := hnc n hn hs
    refine ⟨h1, fun b hb => ?_⟩
    obtain ⟨it, hit, _, he⟩ := (mem_proofDb H ns _).1 (lookup_some_mem _ _ _ hb)
    simp only [Prod.mk.injEq] at he
    rw [he.2]
    exact h2 it hit he.1.symm
  unfold getFromProof
  rcases getD_sound H hlen t hc (proofDb H ns) (nibs key) hdec hcomp with h | ⟨h, used, he⟩
  · left; rw [h]
  · right; rw [he]

/-- **a withheld node is detected**: if a stored node on the key's path (the root, or any node of
    at least 32 encoded bytes) is not among the offered nodes, `get_from_proof` raises `BadTrieProof` -/
theorem proof_withheld (hlen : ∀ b, (H b).length = 32) (t : Node) (hc : Canon t) (key : Bytes)
    (hdec : DecOkOn H t (nibs key)) (ns : List Item) (hnc : NoCollision H t (nibs key) ns)
    (n : Node) (hn : n ∈ getProof t (nibs key)) (hs : Stored H t n)
    (hw : ∀ it ∈ ns, H (rlp it) ≠ hashOf H n) :
    getFromProof H (rootHash H t) key ns = .badProof := by
  have hcomp : ∀ n ∈ getProof t (nibs key), Stored H t n → Compatible H (proofDb H ns) n := by
    intro n hn hs
    obtain ⟨h1, h2⟩ := hnc n hn hs
    refine ⟨h1, fun b hb => ?_⟩
    obtain ⟨it, hit, _, he⟩ := (mem_proofDb H ns _).1 (lookup_some_mem _ _ _ hb)
    simp only [Prod.mk.injEq] at he
    rw [he.2]
    exact h2 it hit he.1.symm
  have hmiss : lookup (proofDb H ns) (hashOf H n) = none := by
    apply lookup_none_of_not_mem
    intro b hb
    obtain ⟨it, hit, _, he⟩ := (mem_proofDb H ns _).1 hb
    simp only [Prod.mk.injEq] at he
    exact hw it hit he.1.symm
  obtain ⟨h, used, he⟩ := getD_withheld H hlen t hc (proofDb H ns) (nibs key) hdec hcomp n hn hs hmiss
  unfold getFromProof
  rw [he]

/-- **completeness**: the list returned by `get_proof(key)` makes `get_from_proof` return exactly
    `get(key)`, for every key — stored, absent, ending inside an extension, at a branch value, below
    embedded nodes -/
theorem proof_complete (hlen : ∀ b, (H b).length = 32) (t : Node) (hc : Canon t) (key : Bytes)
    (hdec : DecOkOn H t (nibs key))
    (hnc : NoCollision H t (nibs key) ((getProof t (nibs key)).map (toItem H))) :
    getFromProof H (rootHash H t) key ((getProof t (nibs key)).map (toItem H)) = .value (get t (nibs key)) := by
  have hres : ∀ n ∈ getProof t (nibs key), Stored H t n →
      Resolves H (proofDb H ((getProof t (nibs key)).map (toItem H))) n := by
    intro n hn hs
    obtain ⟨h1, h2⟩ := hnc n hn hs
    refine ⟨h1, lookup_of_functional _ _ _ ?_ ?_⟩
    · refine (mem_proofDb H _ _).2 ⟨toItem H n, List.mem_map.2 ⟨n, hn, rfl⟩,
        toItem_ne_blank H n (isBlank_of_mem_getProof _ _ _ hn), rfl⟩
    · intro b' hb'
      obtain ⟨it, hit, _, he⟩ := (mem_proofDb H _ _).1 hb'
      simp only [Prod.mk.injEq] at he
      rw [he.2]
      exact h2 it hit he.1.symm
  unfold getFromProof
  rw [getD_of_path H hlen t hc _ (nibs key) hdec hres]

end PyTrie.Props.C03

namespace PyTrie.Props.C03
open PyTrie PyTrie.Hex PyTrie.Hex.Node PyTrie.HexD

/-- the decoder inverts the encoder on every path node shorter than 2^64 bytes (pyrlp itself
    refuses longer payloads), by the RLP round-trip theorem -/
theorem decOkOn_of_small (H : Bytes → Bytes) (t : Node) (k : Path)
    (h : ∀ n ∈ getProof t k, (enc H n).length < 2 ^ 64) : DecOkOn H t k :=
  fun n hn => rlpDecode_rlp_of_length_lt (toItem H n) (h n hn)

/-- completeness and soundness for py-trie's own hashing (rlp + Keccak-256) -/
theorem proof_complete_keccak (t : Node) (hc : Canon t) (key : Bytes)
    (hsz : ∀ n ∈ getProof t (nibs key), (enc keccak n).length < 2 ^ 64)
    (hnc : NoCollision keccak t (nibs key) ((getProof t (nibs key)).map (toItem keccak))) :
    getFromProof keccak (rootHash keccak t) key ((getProof t (nibs key)).map (toItem keccak)) =
      .value (get t (nibs key)) :=
  proof_complete keccak keccak_length t hc key (decOkOn_of_small keccak t _ hsz) hnc

theorem proof_sound_keccak (t : Node) (hc : Canon t) (key : Bytes)
    (hsz : ∀ n ∈ getProof t (nibs key), (enc keccak n).length < 2 ^ 64)
    (ns : List Item) (hnc : NoCollision keccak t (nibs key) ns) :
    getFromProof keccak (rootHash keccak t) key ns = .value (get t (nibs key)) ∨
    getFromProof keccak (rootHash keccak t) key ns = .badProof :=
  proof_sound keccak keccak_length t hc key (decOkOn_of_small keccak t _ hsz) ns hnc

end PyTrie.Props.C03
