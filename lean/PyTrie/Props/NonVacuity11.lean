import PyTrie.Props.NonVacuity5
import PyTrie.Props.HistoryFailCommit
/-! # Non-vacuity, part 11: a history with a FAILING COMMIT (C05 "remains fully usable and correct afterwards")

A Boolean checker for `Free.GoodF`, its soundness, and a non-pruning history — a direct write, a block of two writes whose
commit is cut short at its second database write, a direct write, a committed block, a block left by an exception — that
passes it under the toy hash. `Free.history_fail_commit_*` are applied; what they say is cross-checked by evaluation: the
failed commit left one orphan entry in the database, the trie reads exactly the calls that count. -/
namespace PyTrie.Props.NonVacuity11
open PyTrie PyTrie.Hex PyTrie.Hex.Node PyTrie.HexD
open PyTrie.Props.NonVacuity PyTrie.Props.NonVacuity2 PyTrie.Props.NonVacuity4 PyTrie.Props.NonVacuity5
open PyTrie.HexW PyTrie.HexRaw PyTrie.HexFree
open PyTrie.Props.C01 (Op run spec)
open PyTrie.Props.Free (HStepF stepWF stepFF runWF runFF GoodF flattenStepsF)

section Checker
variable (H : Bytes → Bytes)

def failedB : Except Exn Unit → Bool
  | .error .writeFailed => true
  | _ => false

theorem failed_of_B (r : Except Exn Unit) (h : failedB r = true) : r = .error .writeFailed := by
  unfold failedB at h
  split at h
  · rfl
  · cases h

def goodFB : World → List HStepF → Bool
  | _, [] => true
  | w, .step s :: rest => goodB H w [s] && goodFB (stepWF H w (.step s)).2 rest
  | w, .failBlock inner n :: rest =>
    goodInnerB H (w.batchBegin 0) inner &&
    failedB (({ (innerW H (w.batchBegin 0) inner).2 with failAfter := some n } : World).batchEnd false).1 &&
    goodFB (stepWF H w (.failBlock inner n)).2 rest

theorem goodF_of_B (w : World) (steps : List HStepF) (h : goodFB H w steps = true) : GoodF H w steps := by
  induction steps generalizing w with
  | nil => trivial
  | cons s rest ih =>
    cases s with
    | step s =>
      simp only [goodFB, Bool.and_eq_true] at h
      exact ⟨good_of_B H w [s] h.1, ih _ h.2⟩
    | failBlock inner n =>
      simp only [goodFB, Bool.and_eq_true] at h
      exact ⟨goodInner_of_B H _ inner h.1.1, failed_of_B _ h.1.2, ih _ h.2⟩

end Checker

/-- a write; a block `{set k2, set k3}` whose commit fails at its SECOND write (the first one landed); a write of `k2`;
    a committed block overwriting `k1`; a block left by an exception -/
def fsteps : List HStepF :=
  [.step (.op k1 (some longV)),
   .failBlock [(k2, some [5]), (k3, some longV)] 1,
   .step (.op k2 (some longW)),
   .step (.block [(k1, some longW)] false),
   .step (.block [(k3, some [7])] true)]

theorem fsteps_good_B : goodFB toyH (freshW toyH false) fsteps = true := by decide +kernel

theorem fsteps_good : GoodF toyH (freshW toyH false) fsteps := goodF_of_B toyH _ fsteps fsteps_good_B

/-- the calls that count: the block whose commit failed and the aborted block are gone -/
theorem fflat : flattenStepsF fsteps = [.set k1 longV, .set k2 longW, .set k1 longW] := rfl

/-- **`Free.history_fail_commit_world` and `_lockstep` apply** -/
theorem world_witness :
    ((runWF toyH (freshW toyH false) fsteps).2.tries[0]!).tree = run (flattenStepsF fsteps) ∧
    Complete (stdHashing toyH) (blankRoot toyH) (runWF toyH (freshW toyH false) fsteps).2.base
      ((runWF toyH (freshW toyH false) fsteps).2.tries[0]!) :=
  (Free.history_fail_commit_world toyH fsteps fsteps_good).2

theorem lockstep_witness :
    (runFF toyH (FWorld.init toyH false) fsteps).1 = (runWF toyH (freshW toyH false) fsteps).1 ∧
    Sim (runFF toyH (FWorld.init toyH false) fsteps).2 (runWF toyH (freshW toyH false) fsteps).2 :=
  Free.history_fail_commit_lockstep toyH toyH_len fsteps fsteps_good

def fBase : Dict Bytes := (runFF toyH (FWorld.init toyH false) fsteps).2.base

theorem fBase_blank : Dict.get? fBase (blankRoot toyH) = none := by decide +kernel
theorem fBase_short : ∀ h b, Dict.get? fBase h = some b → b.length < 2 ^ 64 := by
  intro h b hg
  have := bodies_short fBase 100 (by decide +kernel) h b hg
  omega

/-- **`Free.history_fail_commit_get` applies**: `k3` (written only inside the block whose commit failed, and inside the
    aborted block) reads as absent; `k1`, `k2` read the values of the calls that count -/
theorem get_witness :
    (runFF toyH (FWorld.init toyH false) fsteps).2.get toyH false k3 = .ok [] ∧
    (runFF toyH (FWorld.init toyH false) fsteps).2.get toyH false k1 = .ok longW ∧
    (runFF toyH (FWorld.init toyH false) fsteps).2.get toyH false k2 = .ok longW := by
  have h := fun key => (Free.history_fail_commit_get toyH toyH_len fsteps fsteps_good fBase_blank fBase_short key).1
  have hs : spec (flattenStepsF fsteps) k3 = [] ∧ spec (flattenStepsF fsteps) k1 = longW ∧
      spec (flattenStepsF fsteps) k2 = longW := by rw [fflat]; decide +kernel
  exact ⟨by rw [h k3, hs.1], by rw [h k1, hs.2.1], by rw [h k2, hs.2.2]⟩

def okB' : Except Exn Unit → Bool
  | .ok _ => true
  | .error _ => false

/-- by evaluation: the outcomes call by call — the third entry is the failed commit (`WriteFailed`), every other call
    returned normally —, and the failed commit really left something behind: right after it the database holds one entry
    more than before the block (the first write of the commit), yet the root did not move -/
theorem evaluated :
    (runFF toyH (FWorld.init toyH false) fsteps).1.map okB' = [true, true, true, false, true, true, true, true, true] ∧
    (runFF toyH (FWorld.init toyH false) (fsteps.take 1)).2.base.length + 1 =
      (runFF toyH (FWorld.init toyH false) (fsteps.take 2)).2.base.length ∧
    (runFF toyH (FWorld.init toyH false) (fsteps.take 1)).2.outer.root =
      (runFF toyH (FWorld.init toyH false) (fsteps.take 2)).2.outer.root := by
  decide +kernel

end PyTrie.Props.NonVacuity11
