import PyTrie.Lemmas.BinProofs
/-! # C12 — BinaryTrie is a map with a canonical, history-independent root

`bset` transcribes `_set` / `_set_kv_node` (all eight split cases) / `_set_branch_node` (both
compressions) with the `if_delete_subtrie` flag; `bsetTopS` additionally lists the nodes handed to
`_hash_and_save`. A history is any list of `set` / `delete` / `delete_subtrie` calls on non-empty keys;
a refused call (`NodeOverrideError`) leaves the trie as it was. -/
namespace PyTrie.Props.C12
open PyTrie PyTrie.Bin

inductive Op where
  | set (k : Bits) (v : Bytes)          -- `v = []` is `delete`
  | delete (k : Bits)
  | deleteSubtrie (p : Bits)

def Op.key : Op → Bits
  | .set k _ => k
  | .delete k => k
  | .deleteSubtrie p => p

def apply (t : Option BNode) : Op → Except Err (Option BNode)
  | .set k v => bsetTop t k v false
  | .delete k => bsetTop t k [] false
  | .deleteSubtrie p => bsetTop t p [] true

/-- what the caller holds after a call: a raising call leaves `root_hash` unchanged -/
def step (t : Option BNode) (o : Op) : Option BNode :=
  match apply t o with
  | .ok t' => t'
  | .error _ => t

def run (ops : List Op) : Option BNode := ops.foldl step none

/-- the map model with the prefix rule -/
noncomputable def specStep (m : Bits → Option Bytes) : Op → Bits → Option Bytes
  | .set k v =>
    if v = [] then fun k' => if k' = k then none else m k'
    else
      open Classical in
      if ∃ k' v', m k' = some v' ∧ Related k' k then m
      else fun k' => if k' = k then some v else m k'
  | .delete k => fun k' => if k' = k then none else m k'
  | .deleteSubtrie p => fun k' => if p <+: k' then none else m k'

noncomputable def spec (ops : List Op) : Bits → Option Bytes := ops.foldl specStep (fun _ => none)

theorem bcanon_step (t : Option BNode) (hc : BCanonTop t) (o : Op) (hk : o.key ≠ []) : BCanonTop (step t o) := by
  unfold step
  cases h : apply t o with
  | error e => exact hc
  | ok t' =>
    cases o with
    | set k v => exact bcanon_bsetTop t hc k v false hk t' h
    | delete k => exact bcanon_bsetTop t hc k [] false hk t' h
    | deleteSubtrie p => exact bcanon_bsetTop t hc p [] true hk t' h

/-- one call acts on the contents exactly as the map model says — whether it is accepted or refused -/
theorem get_step (t : Option BNode) (hc : BCanonTop t) (o : Op) (hk : o.key ≠ []) (k' : Bits) :
    bgetTop (step t o) k' = specStep (bgetTop t) o k' := by
  unfold step
  cases o with
  | set k v =>
    simp only [apply, specStep]
    by_cases hv : v = []
    · subst hv
      simp only [↓reduceIte]
      cases h : bsetTop t k [] false with
      | ok t' => exact bget_delete t hc k hk t' h k'
      | error e =>
        cases e
        have := (delete_override t hc k hk h).1
        by_cases e : k' = k
        · simp [e, this]
        · simp [e]
    · simp only [hv, ↓reduceIte]
      cases h : bsetTop t k v false with
      | ok t' =>
        have hno : ¬ ∃ k' v', bgetTop t k' = some v' ∧ Related k' k := by
          intro hex
          have := (set_override_iff t hc k hk v hv).2 hex
          rw [h] at this; cases this
        rw [if_neg hno]
        exact bget_set t hc k hk v hv t' h k'
      | error e =>
        cases e
        have hex := (set_override_iff t hc k hk v hv).1 h
        rw [if_pos hex]
  | delete k =>
    simp only [apply, specStep]
    cases h : bsetTop t k [] false with
    | ok t' => exact bget_delete t hc k hk t' h k'
    | error e =>
      cases e
      have := (delete_override t hc k hk h).1
      by_cases e : k' = k
      · simp [e, this]
      · simp [e]
  | deleteSubtrie p =>
    simp only [apply, specStep]
    cases h : bsetTop t p [] true with
    | ok t' => exact bget_delete_subtrie t hc p hk t' h k'
    | error e =>
      cases e
      have hnone := (delete_subtrie_override t hc p hk h).2
      by_cases e : p <+: k'
      · simp only [e, ↓reduceIte]
        cases hg : bgetTop t k' with
        | none => rfl
        | some v' => exact absurd e (hnone k' v' hg)
      · simp [e]

def KeysNonEmpty (ops : List Op) : Prop := ∀ o ∈ ops, o.key ≠ []

theorem run_invariant (ops : List Op) (hk : KeysNonEmpty ops) (t : Option BNode) (hc : BCanonTop t) :
    BCanonTop (ops.foldl step t) ∧ ∀ k, bgetTop (ops.foldl step t) k = ops.foldl specStep (bgetTop t) k := by
  induction ops generalizing t with
  | nil => exact ⟨hc, fun _ => rfl⟩
  | cons o os ih =>
    have hko : o.key ≠ [] := hk o (by simp)
    have hkos : KeysNonEmpty os := fun x hx => hk x (by simp [hx])
    obtain ⟨h1, h2⟩ := ih hkos (step t o) (bcanon_step t hc o hko)
    refine ⟨h1, fun k => ?_⟩
    rw [List.foldl_cons, List.foldl_cons, h2 k]
    have : bgetTop (step t o) = specStep (bgetTop t) o := funext (get_step t hc o hko)
    rw [this]

/-- every reachable trie is canonical -/
theorem canon_run (ops : List Op) (hk : KeysNonEmpty ops) : BCanonTop (run ops) :=
  (run_invariant ops hk none trivial).1

/-- **map semantics**: after any history the contents are exactly the map model (with the prefix rule),
    for every lookup key — stored, absent, prefixes and extensions of stored keys -/
theorem run_get (ops : List Op) (hk : KeysNonEmpty ops) (k : Bits) : bgetTop (run ops) k = spec ops k :=
  (run_invariant ops hk none trivial).2 k

/-- two tries with the same contents are the same tree -/
theorem tree_unique (a b : Option BNode) (ha : BCanonTop a) (hb : BCanonTop b)
    (h : ∀ k, bgetTop a k = bgetTop b k) : a = b := by
  cases a with
  | none =>
    cases b with
    | none => rfl
    | some nb =>
      obtain ⟨k, v, hkv⟩ := exists_key nb hb
      have := h k
      simp [bgetTop, hkv] at this
  | some na =>
    cases b with
    | none =>
      obtain ⟨k, v, hkv⟩ := exists_key na ha
      have := h k
      simp [bgetTop, hkv] at this
    | some nb => rw [bcanon_unique na nb ha hb (fun k => h k)]

/-- **the root depends on the contents only**, for EVERY hash function: two histories (any order,
    overwrites, refused calls, deletions, subtrie deletions) with the same resulting mapping give the
    same tree, hence the same root hash -/
theorem root_depends_only_on_contents (H : Bytes → Bytes) (ops₁ ops₂ : List Op)
    (h₁ : KeysNonEmpty ops₁) (h₂ : KeysNonEmpty ops₂) (h : ∀ k, spec ops₁ k = spec ops₂ k) :
    rootOf H (run ops₁) = rootOf H (run ops₂) := by
  rw [tree_unique (run ops₁) (run ops₂) (canon_run ops₁ h₁) (canon_run ops₂ h₂)
    (fun k => by rw [run_get ops₁ h₁, run_get ops₂ h₂, h k])]

/-- the empty mapping has the blank hash `H(b"")` -/
theorem root_empty (H : Bytes → Bytes) (ops : List Op) (hk : KeysNonEmpty ops) (h : ∀ k, spec ops k = none) :
    rootOf H (run ops) = H [] := by
  have : run ops = none := tree_unique (run ops) none (canon_run ops hk) trivial
    (fun k => by rw [run_get ops hk, h k]; rfl)
  rw [this]; rfl

/-- a call that raises has handed nothing to `_hash_and_save`: root and database are untouched -/
theorem raise_changes_nothing (t : Option BNode) (k : Bits) (v : Bytes) (sub : Bool) (e : Err)
    (h : (bsetTopS t k v sub).1 = .error e) : (bsetTopS t k v sub).2 = [] := raise_before_save t k v sub e h

theorem saves_tree (t : Option BNode) (k : Bits) (v : Bytes) (sub : Bool) :
    (bsetTopS t k v sub).1 = bsetTop t k v sub := bsetTopS_fst t k v sub

/-- every node of the new trie is an old node or one of the nodes just saved (so, the database being
    add-only, every root ever produced stays fully stored) -/
theorem new_nodes_saved (t : Option BNode) (k : Bits) (v : Bytes) (sub : Bool) (n' : BNode)
    (h : (bsetTopS t k v sub).1 = .ok (some n')) (x : BNode) (hx : x ∈ trieNodes n') :
    x ∈ (bsetTopS t k v sub).2 ∨ ∃ n, t = some n ∧ x ∈ trieNodes n := saves_complete t k v sub n' h x hx

end PyTrie.Props.C12

