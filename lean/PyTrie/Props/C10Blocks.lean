import PyTrie.Props.C10Raw
import PyTrie.Props.HistoryProgress
/-! # C10 over the database a history WITH `squash_changes` blocks leaves (tree-free world)

`C10.raw_nodes_is_preorder` / `raw_items_exact` speak about histories of direct calls. With `Free.history_blocks_world` (after any
history with blocks the database is complete for the tree of the flattened history) the same holds for the tree-free world
after any history of direct calls and committed / aborted blocks, pruning on or off: `nodes()` is the pre-order sequence of
the trie of the calls that count, `items()` yields exactly its stored pairs in key order. -/
namespace PyTrie.Props.C10
open PyTrie PyTrie.Hex PyTrie.Hex.Node PyTrie.HexD PyTrie.HexW PyTrie.HexRaw PyTrie.HexFree PyTrie.Fog
open PyTrie.Props.C01 (Op run spec)
open PyTrie.Props.Free (flattenSteps Good' good_of_good' history_blocks_world)

/-- **`nodes()` over the tree-free world's database after a history with blocks = the pre-order of the flattened history's trie** -/
theorem raw_nodes_is_preorder_blocks (H : Bytes → Bytes) (hlen : ∀ b, (H b).length = 32) (prune : Bool) (steps : List HStep)
    (hgood : Good' H (freshW H prune) steps)
    (hbk : Dict.get? (runF H (FWorld.init H prune) steps).2.base (blankRoot H) = none)
    (hsm : ∀ h b, Dict.get? (runF H (FWorld.init H prune) steps).2.base h = some b → b.length < 2 ^ 64)
    (fuel : Nat) (hf : (preorder (run (flattenSteps steps)) []).length < fuel) :
    nodesOfD H (runF H (FWorld.init H prune) steps).2.base (runF H (FWorld.init H prune) steps).2.outer.root fuel =
      .ok ((preorder (run (flattenSteps steps)) []).map (fun e => (e.1, Ann.toD H (annotate e.2)))) := by
  have hg := good_of_good' H prune steps hgood
  obtain ⟨_, _, htree, _, hcomp, _⟩ := history_blocks_world H hlen prune steps hg
  obtain ⟨_, hsim⟩ := Free.history_lockstep H hlen prune steps hg
  obtain ⟨hbase, _, _, _, hout, _, _⟩ := hsim
  rw [hbase] at hbk hsm ⊢
  rw [hout]
  generalize (runW H (freshW H prune) steps).2 = w at htree hcomp hbk hsm ⊢
  have hcanon : Canon (w.tries[0]!).tree := htree ▸ PyTrie.Props.C01.canon_run _
  have hag : DbAgrees w.base w.base := fun _ => rfl
  have hst : StoredD H w.base (w.tries[0]!).tree := storedD_of_storedBelow H hag hbk hsm _ hcomp.2
  have hp := partial_of_complete H (w.tries[0]!) w.base hcomp hbk hsm
  have hrootIn : isBlank (w.tries[0]!).tree = false → (lookup w.base (w.tries[0]!).root).isSome := by
    intro hb
    have h1 := hcomp.1
    rw [hb] at h1
    simp only [Bool.false_eq_true, if_false] at h1
    obtain ⟨_, _, hg⟩ := h1
    show (Dict.get? w.base (w.tries[0]!).root).isSome
    rw [hg]; rfl
  show nodesOfD H w.base (toFree (w.tries[0]!)).root fuel = _
  rw [show (toFree (w.tries[0]!)).root = (w.tries[0]!).root from rfl,
    nodesOfD_refines H hlen w.base (w.tries[0]!).root (w.tries[0]!).tree hcanon hp.1 hrootIn hst fuel, htree,
    nodes_loop_is_preorder (flattenSteps steps) fuel hf]

/-- **`items()` over that database = exactly the stored pairs of the calls that count, each once, in key order** -/
theorem raw_items_exact_blocks (H : Bytes → Bytes) (hlen : ∀ b, (H b).length = 32) (prune : Bool) (steps : List HStep)
    (hgood : Good' H (freshW H prune) steps)
    (hbk : Dict.get? (runF H (FWorld.init H prune) steps).2.base (blankRoot H) = none)
    (hsm : ∀ h b, Dict.get? (runF H (FWorld.init H prune) steps).2.base h = some b → b.length < 2 ^ 64)
    (fuel : Nat) (hf : (preorder (run (flattenSteps steps)) []).length < fuel) :
    ∃ l, itemsOfD H (runF H (FWorld.init H prune) steps).2.base (runF H (FWorld.init H prune) steps).2.outer.root fuel = .ok l ∧
      (∀ k v, (nibs k, v) ∈ l ↔ v ≠ [] ∧ spec (flattenSteps steps) k = v) ∧
      (l.map (·.1)).Pairwise (fun a b => plt a b = true) := by
  refine ⟨itemsOf (run (flattenSteps steps)), ?_, fun k v => items_exact _ k v, items_sorted _⟩
  unfold itemsOfD
  rw [raw_nodes_is_preorder_blocks H hlen prune steps hgood hbk hsm fuel hf]
  simp only [itemsOf, List.filterMap_map]
  rfl

end PyTrie.Props.C10
