import PyTrie.Props.NonVacuity2
import PyTrie.Props.C07
import PyTrie.Props.RawLevel
/-! # Non-vacuity, part 3: partial databases and atomic failure

Concrete witnesses for the raw-level C07 theorems (`raw_set_partial`, `raw_delete_partial`, `raw_traverse_partial`,
`raw_get_partial`, the `…_missing_on_path` and `raw_failed_…` theorems) and for `Raw.bin_refused_saves_nothing`.
The damaged databases are `rawDb` (the database of `t1`) with the body of one hashed node of `t1` removed. -/
namespace PyTrie.Props.NonVacuity3
open PyTrie PyTrie.Hex PyTrie.Hex.Node PyTrie.HexD PyTrie.HexRaw
open PyTrie.Props.NonVacuity PyTrie.Props.NonVacuity2

/-! ## 0. Damaged databases -/

/-- the database without the entries stored under `x` -/
def remove (db : Db) (x : Hash) : Db := db.filter fun e => !(e.1 == x)

theorem lookup_remove (db : Db) (x h : Hash) : lookup (remove db x) h = if h = x then none else lookup db h := by
  induction db with
  | nil => simp [remove, lookup]
  | cons e r ih =>
    unfold remove lookup at *
    by_cases hx : e.1 = x <;> by_cases hh : e.1 = h <;> simp_all

theorem lookup_remove_self (db : Db) (x : Hash) : lookup (remove db x) x = none := by
  rw [lookup_remove]; simp

theorem lookup_remove_sub (db : Db) (x h : Hash) (b : Bytes) (hl : lookup (remove db x) h = some b) :
    lookup db h = some b := by
  rw [lookup_remove] at hl
  split at hl
  · cases hl
  · exact hl

/-- **a database that holds only (some of) the bodies of a stored tree is `PartialD` for it** -/
theorem partialD_of_storedD (H : Bytes → Bytes) (db db' : Db)
    (hsub : ∀ h b, lookup db' h = some b → lookup db h = some b) (t : Node) (hs : StoredD H db t) :
    PartialD H db' t := by
  have hc : ∀ c : Node, (isHashed H c = true → hashOf H c ≠ blankRoot H ∧ lookup db (hashOf H c) = some (enc H c) ∧
      rlpDecode (enc H c) = some (toItem H c)) → PartialC H db' c := by
    intro c h hh
    obtain ⟨h1, h2, h3⟩ := h hh
    refine ⟨h1, fun b hb => ?_, h3⟩
    have := hsub _ _ hb
    rw [h2] at this
    injection this with this
    exact this.symm
  induction t with
  | blank => trivial
  | leaf p v => trivial
  | ext p c ih => exact ⟨hc c hs.1, ih hs.2⟩
  | branch ch v ih => exact fun i => ⟨hc (ch i) (hs i).1, ih i (hs i).2⟩

theorem partialD_remove (H : Bytes → Bytes) (db : Db) (x : Hash) (t : Node) (hs : StoredD H db t) :
    PartialD H (remove db x) t :=
  partialD_of_storedD H db _ (lookup_remove_sub db x) t hs

/-- the hashes of the three hashed nodes of `t1`: the leaf holding `longV`, the branch, the root extension -/
def hLeaf : Hash := hashOf toyH (leaf [] longV)
def hBr : Hash := hashOf toyH t1br
def hRoot : Hash := hashOf toyH t1

/-- `rawDb` without the hashed leaf / without the hashed branch / without the root -/
def dbA : Db := remove rawDb hLeaf
def dbB : Db := remove rawDb hBr
def dbC : Db := remove rawDb hRoot

theorem t1_partialA : PartialD toyH dbA t1 := partialD_remove toyH rawDb hLeaf t1 t1_storedD
theorem t1_partialB : PartialD toyH dbB t1 := partialD_remove toyH rawDb hBr t1 t1_storedD
theorem t1_partialC : PartialD toyH dbC t1 := partialD_remove toyH rawDb hRoot t1 t1_storedD

/-- the damage is real: three of the four bodies are left, the removed ones are absent, the others still there -/
example : rawDb.length = 4 ∧ dbA.length = 3 ∧ dbB.length = 3 ∧ dbC.length = 3 := by decide +kernel

theorem dbA_lookups : lookup dbA hLeaf = none ∧ lookup dbA hBr = some (enc toyH t1br) ∧ lookup dbA hRoot = some (enc toyH t1) := by
  decide +kernel

theorem dbB_lookups : lookup dbB hBr = none ∧ lookup dbB hLeaf = some (enc toyH (leaf [] longV)) ∧
    lookup dbB hRoot = some (enc toyH t1) := by
  decide +kernel

/-- reading off the hash of a `missing` report (the error types have no decidable equality) -/
def missOf {α : Type} : Except HexRaw.Err α → Option Hash
  | .error (.missing h) => some h
  | _ => none

theorem eq_of_missOf {α : Type} (r : Except HexRaw.Err α) (h : Hash) (hm : missOf r = some h) : r = .error (.missing h) := by
  unfold missOf at hm
  split at hm
  · injection hm with hm; rw [hm]
  · cases hm

/-! ## 1. `_set` on a damaged database -/
section SetPartial

/-- the first fetch of `set(k1, [9])` that `dbA` cannot answer is the hashed leaf (the branch above it is found) -/
theorem setA_firstMissing : firstMissing dbA (setE (stdHashing toyH) t1 (nibs k1) [9]).2 = some hLeaf := by
  decide +kernel

/-- the fetches of that call: the branch, then the leaf -/
example : (setE (stdHashing toyH) t1 (nibs k1) [9]).2.filterMap (fun e => match e with | .read h => some h | _ => none)
    = [hBr, hLeaf] := by decide +kernel

/-- **`raw_set_partial` applies and says the call stops at the removed leaf** -/
theorem set_partial_fails (evs : List Ev) :
    rawSet toyH 10 { db := dbA, evs := evs } (toItem toyH t1) (nibs k1) [9] = .error (.missing hLeaf) := by
  rw [C07.raw_set_partial toyH toyH_len t1 t1_canon (nibs k1) [9] { db := dbA, evs := evs } t1_partialA 10 (by decide)]
  simp only [setA_firstMissing]

/-- **`raw_set_missing_on_path` applies**: the reported hash is absent and lies on the key's path -/
theorem set_missing_on_path :
    lookup dbA hLeaf = none ∧ HexW.OnPath (stdHashing toyH) t1 (nibs k1) hLeaf :=
  C07.raw_set_missing_on_path toyH toyH_len t1 t1_canon (nibs k1) [9] { db := dbA, evs := [] } t1_partialA 10 (by decide)
    hLeaf (set_partial_fails [])

/-- another key (`k2`, the embedded leaf next to the removed one) does not need the removed node … -/
theorem setA_other_firstMissing : firstMissing dbA (setE (stdHashing toyH) t1 (nibs k2) [7]).2 = none := by
  decide +kernel

/-- … and the call returns what it returns on the complete database (one fetch, of the branch) -/
theorem set_partial_ok (evs : List Ev) :
    rawSet toyH 10 { db := dbA, evs := evs } (toItem toyH t1) (nibs k2) [7] =
      .ok (toItem toyH (setE (stdHashing toyH) t1 (nibs k2) [7]).1,
        { db := applyPersists dbA (setE (stdHashing toyH) t1 (nibs k2) [7]).2,
          evs := evs ++ (setE (stdHashing toyH) t1 (nibs k2) [7]).2 }) := by
  rw [C07.raw_set_partial toyH toyH_len t1 t1_canon (nibs k2) [7] { db := dbA, evs := evs } t1_partialA 10 (by decide)]
  simp only [setA_other_firstMissing]

example : (setE (stdHashing toyH) t1 (nibs k2) [7]).2.filterMap (fun e => match e with | .read h => some h | _ => none)
    = [hBr] ∧ (setE (stdHashing toyH) t1 (nibs k2) [7]).1 = t2 := by
  refine ⟨by decide +kernel, ?_⟩
  exact sameB_eq _ _ (by decide +kernel)

/-- with the branch removed instead, the same `set(k1, …)` stops one node earlier … -/
theorem setB_firstMissing : firstMissing dbB (setE (stdHashing toyH) t1 (nibs k1) [9]).2 = some hBr := by
  decide +kernel

theorem set_partial_fails_B (evs : List Ev) :
    rawSet toyH 10 { db := dbB, evs := evs } (toItem toyH t1) (nibs k1) [9] = .error (.missing hBr) := by
  rw [C07.raw_set_partial toyH toyH_len t1 t1_canon (nibs k1) [9] { db := dbB, evs := evs } t1_partialB 10 (by decide)]
  simp only [setB_firstMissing]

theorem set_missing_on_path_B :
    lookup dbB hBr = none ∧ HexW.OnPath (stdHashing toyH) t1 (nibs k1) hBr :=
  C07.raw_set_missing_on_path toyH toyH_len t1 t1_canon (nibs k1) [9] { db := dbB, evs := [] } t1_partialB 10 (by decide)
    hBr (set_partial_fails_B [])

/-- … and a key that leaves the root extension at its first nibble (`0x24`) fetches nothing at all -/
theorem setB_other_firstMissing : firstMissing dbB (setE (stdHashing toyH) t1 (nibs [0x24]) [9]).2 = none := by
  decide +kernel

theorem set_partial_ok_B (evs : List Ev) :
    rawSet toyH 10 { db := dbB, evs := evs } (toItem toyH t1) (nibs [0x24]) [9] =
      .ok (toItem toyH (setE (stdHashing toyH) t1 (nibs [0x24]) [9]).1,
        { db := applyPersists dbB (setE (stdHashing toyH) t1 (nibs [0x24]) [9]).2,
          evs := evs ++ (setE (stdHashing toyH) t1 (nibs [0x24]) [9]).2 }) := by
  rw [C07.raw_set_partial toyH toyH_len t1 t1_canon (nibs [0x24]) [9] { db := dbB, evs := evs } t1_partialB 10 (by decide)]
  simp only [setB_other_firstMissing]

end SetPartial

/-! ## 2. `_delete` on a damaged database -/
section DeletePartial

/-- `delete(k1)` walks to the removed leaf itself: the first unanswered fetch is the leaf -/
theorem delA_firstMissing : firstMissing dbA (deleteE (stdHashing toyH) t1 (nibs k1)).2 = some hLeaf := by
  decide +kernel

/-- **`raw_delete_partial` applies: the delete stops at the removed node** -/
theorem delete_partial_fails (evs : List Ev) :
    rawDelete toyH 10 { db := dbA, evs := evs } (toItem toyH t1) (nibs k1) = .error (.missing hLeaf) := by
  rw [C07.raw_delete_partial toyH toyH_len t1 t1_canon (nibs k1) { db := dbA, evs := evs } t1_partialA 10 (by decide)]
  simp only [delA_firstMissing]

/-- **`raw_delete_missing_on_path` applies** -/
theorem delete_missing_on_path :
    lookup dbA hLeaf = none ∧
      (HexW.OnPath (stdHashing toyH) t1 (nibs k1) hLeaf ∨ HexW.SiblingOnPath (stdHashing toyH) t1 (nibs k1) hLeaf) :=
  C07.raw_delete_missing_on_path toyH toyH_len t1 t1_canon (nibs k1) { db := dbA, evs := [] } t1_partialA 10 (by decide)
    hLeaf (delete_partial_fails [])

/-- `delete(k2)` removes the embedded leaf next to it; the branch is left with one child and
    `_normalize_branch_node` must fetch that child — the removed leaf, which is *not* on the path of `k2` -/
theorem delA_sibling_firstMissing : firstMissing dbA (deleteE (stdHashing toyH) t1 (nibs k2)).2 = some hLeaf := by
  decide +kernel

theorem delete_partial_fails_sibling (evs : List Ev) :
    rawDelete toyH 10 { db := dbA, evs := evs } (toItem toyH t1) (nibs k2) = .error (.missing hLeaf) := by
  rw [C07.raw_delete_partial toyH toyH_len t1 t1_canon (nibs k2) { db := dbA, evs := evs } t1_partialA 10 (by decide)]
  simp only [delA_sibling_firstMissing]

theorem delete_missing_sibling :
    lookup dbA hLeaf = none ∧
      (HexW.OnPath (stdHashing toyH) t1 (nibs k2) hLeaf ∨ HexW.SiblingOnPath (stdHashing toyH) t1 (nibs k2) hLeaf) :=
  C07.raw_delete_missing_on_path toyH toyH_len t1 t1_canon (nibs k2) { db := dbA, evs := [] } t1_partialA 10 (by decide)
    hLeaf (delete_partial_fails_sibling [])

/-- here the second disjunct is the one that holds: no node on the path of `k2` has that hash -/
theorem delete_sibling_not_on_path : ¬ HexW.OnPath (stdHashing toyH) t1 (nibs k2) hLeaf := by
  rintro ⟨q, n, hq, hne, hn, _, he⟩
  have hk : nibs k2 = [1, 3] := by decide
  rw [hk] at hq
  have hmem : q = [] ∨ q = [1] ∨ q = [1, 3] := by
    rcases q with _ | ⟨a, _ | ⟨b, _ | ⟨c, q⟩⟩⟩
    · exact Or.inl rfl
    · simp only [List.cons_prefix_cons, List.nil_prefix, and_true] at hq
      subst hq; exact Or.inr (Or.inl rfl)
    · simp only [List.cons_prefix_cons, List.nil_prefix, and_true] at hq
      obtain ⟨rfl, rfl⟩ := hq; exact Or.inr (Or.inr rfl)
    · simp [List.cons_prefix_cons] at hq
  rw [t1_eq] at hn
  rcases hmem with rfl | rfl | rfl
  · exact hne rfl
  · have : n = t1br := by
      simp [t1', nodeAt] at hn
      exact hn.symm
    subst this
    revert he; decide +kernel
  · have : n = leaf [] [5] := by
      simp [t1', t1br, nodeAt, upd] at hn
      exact hn.symm
    subst this
    revert he; decide +kernel

theorem delete_sibling_on_path : HexW.SiblingOnPath (stdHashing toyH) t1 (nibs k2) hLeaf :=
  delete_missing_sibling.2.resolve_left delete_sibling_not_on_path

/-- a delete that fetches the branch but neither of its hashed children (absent key `0x14`) goes through -/
theorem delA_other_firstMissing : firstMissing dbA (deleteE (stdHashing toyH) t1 (nibs [0x14])).2 = none := by
  decide +kernel

theorem delete_partial_ok (evs : List Ev) :
    rawDelete toyH 10 { db := dbA, evs := evs } (toItem toyH t1) (nibs [0x14]) =
      .ok (toItem toyH (deleteE (stdHashing toyH) t1 (nibs [0x14])).1,
        { db := applyPersists dbA (deleteE (stdHashing toyH) t1 (nibs [0x14])).2,
          evs := evs ++ (deleteE (stdHashing toyH) t1 (nibs [0x14])).2 }) := by
  rw [C07.raw_delete_partial toyH toyH_len t1 t1_canon (nibs [0x14]) { db := dbA, evs := evs } t1_partialA 10 (by decide)]
  simp only [delA_other_firstMissing]

example : (deleteE (stdHashing toyH) t1 (nibs [0x14])).2.filterMap (fun e => match e with | .read h => some h | _ => none)
    = [hBr] := by decide +kernel

end DeletePartial

/-! ## 3. Traversals and lookups on a damaged database -/
section ReadPartial

theorem travA_firstMissing : firstMissingRead toyH dbA t1 [1, 2] [] = some (hLeaf, [1, 2]) := by decide +kernel
theorem travB_firstMissing : firstMissingRead toyH dbB t1 [1, 2] [] = some (hBr, [1]) := by decide +kernel
theorem travA_other : firstMissingRead toyH dbA t1 [1, 3] [] = none := by decide +kernel

/-- **`raw_traverse_partial` applies**: `traverse((1, 2))` through the removed leaf reports it with the two nibbles
    consumed to reach it … -/
theorem traverse_partial_fails :
    traverseOutD toyH dbA 3 (toItem toyH t1) [1, 2] = .error (.missing hLeaf [1, 2]) := by
  rw [C07.raw_traverse_partial toyH toyH_len dbA t1 t1_canon t1_partialA [1, 2] 3 (by decide)]
  simp only [travA_firstMissing]

/-- … with the branch removed, the same traversal reports the branch after one nibble … -/
theorem traverse_partial_fails_B :
    traverseOutD toyH dbB 3 (toItem toyH t1) [1, 2] = .error (.missing hBr [1]) := by
  rw [C07.raw_traverse_partial toyH toyH_len dbB t1 t1_canon t1_partialB [1, 2] 3 (by decide)]
  simp only [travB_firstMissing]

/-- … and a traversal to the embedded leaf avoids the removed node and returns the complete-database result -/
theorem traverse_partial_ok :
    traverseOutD toyH dbA 3 (toItem toyH t1) [1, 3] = .ok (TravOut.toD toyH (traverseOut t1 [1, 3])) := by
  rw [C07.raw_traverse_partial toyH toyH_len dbA t1 t1_canon t1_partialA [1, 3] 3 (by decide)]
  simp only [travA_other]

/-- a traversal stopping inside the root extension's successor: `traverse((1,))` on `dbA` returns the branch node -/
theorem traverse_partial_ok_branch :
    traverseOutD toyH dbA 2 (toItem toyH t1) [1] = .ok (TravOut.toD toyH (traverseOut t1 [1])) := by
  rw [C07.raw_traverse_partial toyH toyH_len dbA t1 t1_canon t1_partialA [1] 2 (by decide)]
  have : firstMissingRead toyH dbA t1 [1] [] = none := by decide +kernel
  simp only [this]

/-- `RootPartial` for a database in which the root's body is present … -/
theorem rootPartial_of_lookup (db : Db) (hl : lookup db hRoot = some (enc toyH t1)) : RootPartial toyH db hRoot t1 := by
  unfold RootPartial
  have hb : isBlank t1 = false := by decide +kernel
  simp only [hb, Bool.false_eq_true, ↓reduceIte]
  refine ⟨rfl, by decide +kernel, fun b hb => ?_, rlpDecode_rlp_of_length_lt (toItem toyH t1) (by decide +kernel)⟩
  rw [hl] at hb
  injection hb with hb
  exact hb.symm

theorem t1_rootA : RootPartial toyH dbA hRoot t1 := rootPartial_of_lookup dbA dbA_lookups.2.2
theorem t1_rootB : RootPartial toyH dbB hRoot t1 := rootPartial_of_lookup dbB dbB_lookups.2.2

/-- … and for one from which it was removed -/
theorem t1_rootC : RootPartial toyH dbC hRoot t1 := by
  unfold RootPartial
  have hb : isBlank t1 = false := by decide +kernel
  simp only [hb, Bool.false_eq_true, ↓reduceIte]
  refine ⟨rfl, by decide +kernel, fun b hb => ?_, rlpDecode_rlp_of_length_lt (toItem toyH t1) (by decide +kernel)⟩
  rw [show lookup dbC hRoot = none from lookup_remove_self rawDb hRoot] at hb
  cases hb

/-- **`raw_get_partial` applies**: `get(k1)` reports the removed leaf at `(1, 2)` … -/
theorem get_partial_fails : getD toyH dbA hRoot (nibs k1) = .error (.missing hLeaf [1, 2]) := by
  rw [C07.raw_get_partial toyH toyH_len dbA hRoot t1 t1_canon t1_rootA t1_partialA (nibs k1)]
  have h1 : ¬ (isBlank t1 = false ∧ lookup dbA hRoot = none) := by rw [dbA_lookups.2.2]; simp
  have h2 : firstMissingRead toyH dbA t1 (nibs k1) [] = some (hLeaf, [1, 2]) := by decide +kernel
  simp only [h1, ↓reduceIte, h2]

theorem get_partial_fails_B : getD toyH dbB hRoot (nibs k1) = .error (.missing hBr [1]) := by
  rw [C07.raw_get_partial toyH toyH_len dbB hRoot t1 t1_canon t1_rootB t1_partialB (nibs k1)]
  have h1 : ¬ (isBlank t1 = false ∧ lookup dbB hRoot = none) := by rw [dbB_lookups.2.2]; simp
  have h2 : firstMissingRead toyH dbB t1 (nibs k1) [] = some (hBr, [1]) := by decide +kernel
  simp only [h1, ↓reduceIte, h2]

/-- … `get(k2)` avoids it and returns the value … -/
theorem get_partial_ok : getD toyH dbA hRoot (nibs k2) = .ok [5] := by
  rw [C07.raw_get_partial toyH toyH_len dbA hRoot t1 t1_canon t1_rootA t1_partialA (nibs k2)]
  have h1 : ¬ (isBlank t1 = false ∧ lookup dbA hRoot = none) := by rw [dbA_lookups.2.2]; simp
  have h2 : firstMissingRead toyH dbA t1 (nibs k2) [] = none := by decide +kernel
  have h3 : Hex.get t1 (nibs k2) = [5] := by decide +kernel
  simp only [h1, ↓reduceIte, h2, h3]

/-- … and with the root's body removed every lookup reports the root with no nibbles consumed -/
theorem get_partial_root_missing (k : Path) : getD toyH dbC hRoot k = .error (.missing hRoot []) := by
  rw [C07.raw_get_partial toyH toyH_len dbC hRoot t1 t1_canon t1_rootC t1_partialC k]
  have h1 : isBlank t1 = false ∧ lookup dbC hRoot = none := ⟨by decide +kernel, lookup_remove_self rawDb hRoot⟩
  simp only [h1, and_self, ↓reduceIte]

end ReadPartial

/-! ## 4. A failed call has written nothing -/
section Atomic
open PyTrie.HexRawT

/-- the state a call starts from: the damaged database and some earlier traffic -/
def stA : HexRaw.St := { db := dbA, evs := [.read hRoot] }

/-- hypothesis of `raw_failed_set_writes_nothing`, by evaluation: `_set` stops at the removed leaf -/
theorem setT_fails : (rawSetT toyH 10 stA (toItem toyH t1) (nibs k1) [9]).2 = .error (.missing hLeaf) :=
  eq_of_missOf _ _ (by decide +kernel)

/-- **`raw_failed_set_writes_nothing` applies** -/
theorem failed_set_quiet : Quiet stA (rawSetT toyH 10 stA (toItem toyH t1) (nibs k1) [9]).1 :=
  C07.raw_failed_set_writes_nothing toyH hLeaf 10 stA (toItem toyH t1) (nibs k1) [9] setT_fails

/-- what the failed call did record before stopping: two prune marks and the fetch of the branch -/
example : (rawSetT toyH 10 stA (toItem toyH t1) (nibs k1) [9]).1.evs = [.read hRoot, .prune hRoot, .read hBr, .prune hBr] := by
  decide +kernel

/-- hypothesis of `raw_failed_delete_writes_nothing`: `_delete(k1)` stops at the removed leaf … -/
theorem deleteT_fails : (rawDeleteT toyH 10 stA (toItem toyH t1) (nibs k1)).2 = .error (.missing hLeaf) :=
  eq_of_missOf _ _ (by decide +kernel)

theorem failed_delete_quiet : Quiet stA (rawDeleteT toyH 10 stA (toItem toyH t1) (nibs k1)).1 :=
  C07.raw_failed_delete_writes_nothing toyH toyH_len hLeaf 10 stA (toItem toyH t1) (nibs k1) deleteT_fails

/-- … and `_delete(k2)` fails *after* its sub-delete returned (in `_normalize_branch_node`, fetching the sibling): the one
    place where a fetch follows the point at which `_delete` could have persisted something -/
theorem deleteT_fails_sibling : (rawDeleteT toyH 10 stA (toItem toyH t1) (nibs k2)).2 = .error (.missing hLeaf) :=
  eq_of_missOf _ _ (by decide +kernel)

theorem failed_delete_sibling_quiet : Quiet stA (rawDeleteT toyH 10 stA (toItem toyH t1) (nibs k2)).1 :=
  C07.raw_failed_delete_writes_nothing toyH toyH_len hLeaf 10 stA (toItem toyH t1) (nibs k2) deleteT_fails_sibling

/-- the two models agree on these calls (`rawT_set_agrees`), so the failures above are those of section 1 / 2 -/
example : rawSet toyH 10 stA (toItem toyH t1) (nibs k1) [9] = forget (rawSetT toyH 10 stA (toItem toyH t1) (nibs k1) [9]) :=
  C07.rawT_set_agrees toyH 10 stA (toItem toyH t1) (nibs k1) [9]

/-- end to end: `set(k1, [9])` on the trie with root `hRoot` over `dbA` … -/
theorem opT_set_fails : (rawOpT toyH dbA hRoot k1 (some [9])).2 = .error (.missing hLeaf) :=
  eq_of_missOf _ _ (by decide +kernel)

/-- **`raw_failed_op_leaves_db` applies** -/
theorem failed_set_leaves_db : (rawOpT toyH dbA hRoot k1 (some [9])).1.db = dbA :=
  C07.raw_failed_op_leaves_db toyH toyH_len dbA hRoot k1 (some [9]) hLeaf opT_set_fails

/-- … `delete(k2)` (sibling fetch) … -/
theorem opT_delete_fails : (rawOpT toyH dbA hRoot k2 none).2 = .error (.missing hLeaf) :=
  eq_of_missOf _ _ (by decide +kernel)

theorem failed_delete_leaves_db : (rawOpT toyH dbA hRoot k2 none).1.db = dbA :=
  C07.raw_failed_op_leaves_db toyH toyH_len dbA hRoot k2 none hLeaf opT_delete_fails

/-- … `set(k2, b'')` (which is a delete) … -/
theorem opT_set_empty_fails : (rawOpT toyH dbA hRoot k2 (some [])).2 = .error (.missing hLeaf) :=
  eq_of_missOf _ _ (by decide +kernel)

theorem failed_set_empty_leaves_db : (rawOpT toyH dbA hRoot k2 (some [])).1.db = dbA :=
  C07.raw_failed_op_leaves_db toyH toyH_len dbA hRoot k2 (some []) hLeaf opT_set_empty_fails

/-- … and any call on the database without the root's body -/
theorem opT_root_fails : (rawOpT toyH dbC hRoot k2 (some [7])).2 = .error (.missing hRoot) :=
  eq_of_missOf _ _ (by decide +kernel)

theorem failed_root_leaves_db : (rawOpT toyH dbC hRoot k2 (some [7])).1.db = dbC :=
  C07.raw_failed_op_leaves_db toyH toyH_len dbC hRoot k2 (some [7]) hRoot opT_root_fails

/-- for contrast: the call that avoids the removed leaf succeeds and does grow the database -/
example : (match (rawOpT toyH dbA hRoot k2 (some [7])).2 with | .ok _ => true | .error _ => false) = true ∧
    (rawOpT toyH dbA hRoot k2 (some [7])).1.db.length = dbA.length + 2 := by decide +kernel

end Atomic

/-! ## 5. Binary trie: a refused `set` has saved nothing -/
section BinRefused
open PyTrie.Bin PyTrie.Bin.BNode PyTrie.BinRaw

/-- `Except` has no decidable equality: test for the `NodeOverrideError` outcome -/
def isOverride {α : Type} : Except BinRaw.Err α → Bool
  | .error .override => true
  | _ => false

theorem eq_of_isOverride {α : Type} (r : Except BinRaw.Err α) (h : isOverride r = true) : r = .error .override := by
  unfold isOverride at h
  split at h
  · rfl
  · cases h

/-- `00` is a proper prefix of the stored keys `0010`, `0011`: `NodeOverrideError` (raised at the kv node below the root) -/
theorem bin_prefix_refused :
    (BinRawT.rawSetT mixH (mixH []) 10 { db := btDb } (hashNode mixH bt) [false, false] [0x11] false).2 = .error .override :=
  eq_of_isOverride _ (by decide +kernel)

/-- **`bin_refused_saves_nothing` applies** -/
theorem bin_prefix_saves_nothing :
    (BinRawT.rawSetT mixH (mixH []) 10 { db := btDb } (hashNode mixH bt) [false, false] [0x11] false).1 = { db := btDb } :=
  Raw.bin_refused_saves_nothing mixH (mixH []) 10 { db := btDb } (hashNode mixH bt) [false, false] [0x11] false bin_prefix_refused

/-- `10` runs past the stored key `1`: `NodeOverrideError` (raised at the leaf) -/
theorem bin_past_refused :
    (BinRawT.rawSetT mixH (mixH []) 10 { db := btDb } (hashNode mixH bt) [true, false] [0x11] false).2 = .error .override :=
  eq_of_isOverride _ (by decide +kernel)

theorem bin_past_saves_nothing :
    (BinRawT.rawSetT mixH (mixH []) 10 { db := btDb } (hashNode mixH bt) [true, false] [0x11] false).1 = { db := btDb } :=
  Raw.bin_refused_saves_nothing mixH (mixH []) 10 { db := btDb } (hashNode mixH bt) [true, false] [0x11] false bin_past_refused

/-- `00100` runs past the stored key `0010`, three nodes down (root branch, kv node, lower branch, leaf) -/
theorem bin_deep_refused :
    (BinRawT.rawSetT mixH (mixH []) 10 { db := btDb } (hashNode mixH bt) [false, false, true, false, false] [0x11] false).2 =
      .error .override :=
  eq_of_isOverride _ (by decide +kernel)

theorem bin_deep_saves_nothing :
    (BinRawT.rawSetT mixH (mixH []) 10 { db := btDb } (hashNode mixH bt) [false, false, true, false, false] [0x11] false).1 =
      { db := btDb } :=
  Raw.bin_refused_saves_nothing mixH (mixH []) 10 { db := btDb } (hashNode mixH bt) [false, false, true, false, false] [0x11]
    false bin_deep_refused

/-- a refused `delete` (empty value): the key `0` ends exactly at the kv node below the root -/
theorem bin_delete_refused :
    (BinRawT.rawSetT mixH (mixH []) 10 { db := btDb } (hashNode mixH bt) [false] [] false).2 = .error .override :=
  eq_of_isOverride _ (by decide +kernel)

theorem bin_delete_saves_nothing :
    (BinRawT.rawSetT mixH (mixH []) 10 { db := btDb } (hashNode mixH bt) [false] [] false).1 = { db := btDb } :=
  Raw.bin_refused_saves_nothing mixH (mixH []) 10 { db := btDb } (hashNode mixH bt) [false] [] false bin_delete_refused

/-- for contrast: the accepted `set(000, …)` of `NonVacuity.bin_set_witness` saves four nodes -/
example : (BinRawT.rawSetT mixH (mixH []) 10 { db := btDb } (hashNode mixH bt) bk [0xee] false).1.db.length = btDb.length + 4 := by
  decide +kernel

end BinRefused

end PyTrie.Props.NonVacuity3

section Axioms
open PyTrie.Props.NonVacuity3
end Axioms
