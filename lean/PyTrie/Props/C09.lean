import PyTrie.Lemmas.WalkProofs
import PyTrie.Lemmas.WalkConcrete
import PyTrie.Lemmas.ReadPartial
import PyTrie.Lemmas.VersionsConsistent
import PyTrie.Lemmas.WalkDRefines
import PyTrie.Lemmas.WalkDRun
import PyTrie.Lemmas.WalkDDefined
import PyTrie.Lemmas.WalkHistory
import PyTrie.Props.C08
/-! # C09 — a fog-guided walk finds everything, even while the trie changes

The walk is modelled abstractly (`Lemmas/WalkProofs.lean`): a state is the fog plus the pairs met; a
step takes *any* unexplored prefix `p` (whatever query / key chose it) and the description of *some
version* `t` of the trie at `p` — the current version when traversing from the root, an older one
when a `TrieFrontierCache` entry is used: a cached parent is the node of an older version at a prefix
`q`, and `traverse_from(parent, seg)` = `traverse(q ++ seg)` in that version (`C08.traverse_from_eq`,
`C08.traverse_from_sim`) — uses the simulated node on `TraversedPartialPath` (`TravOut.desc`), and
records the sub-segments with `explore`. A schedule is an arbitrary list of such steps; mutations of
the trie between steps only determine which versions occur. -/
namespace PyTrie.Props.C09
open PyTrie PyTrie.Hex PyTrie.Fog PyTrie.Walk

/-- a step on an unexplored prefix is never rejected (`explore` accepts the sub-segments of every
    description) and keeps the fog well-formed -/
theorem step_defined (s : WState) (hw : Wf s.fog) (t : Node) (hc : Canon t) (p : Path) (hp : p ∈ s.fog) :
    ∃ s', wstep s t p = some s' ∧ Wf s'.fog := wstep_defined s hw t hc p hp

/-- **every key whose value stayed the same in all versions consulted is met with that value** once
    the fog is complete — for every exploration order and every interleaving with modifications -/
theorem finds_stable (sched : List (Node × Path)) (s' : WState)
    (hcanon : ∀ e ∈ sched, Canon e.1) (k : Path) (val : Bytes) (hval : val ≠ [])
    (hstable : ∀ e ∈ sched, get e.1 k = val)
    (hrun : wrun start sched = some s') (hdone : s'.fog = []) : (k, val) ∈ s'.met :=
  walk_finds_stable sched s' hcanon k val hval hstable hrun hdone

/-- during the walk: a stable key is already met or still lies under an unexplored prefix -/
theorem invariant (sched : List (Node × Path)) (s s' : WState) (hw : Wf s.fog)
    (hcanon : ∀ e ∈ sched, Canon e.1) (k : Path) (val : Bytes) (hval : val ≠ [])
    (hstable : ∀ e ∈ sched, get e.1 k = val)
    (hinv : (k, val) ∈ s.met ∨ ∃ q ∈ s.fog, q <+: k)
    (hrun : wrun s sched = some s') :
    (k, val) ∈ s'.met ∨ ∃ q ∈ s'.fog, q <+: k := walk_invariant sched s s' hw hcanon k val hval hstable hinv hrun

/-- **nothing is met that was never stored** -/
theorem sound (sched : List (Node × Path)) (s' : WState)
    (hcanon : ∀ e ∈ sched, Canon e.1) (hrun : wrun start sched = some s') (k : Path) (v : Bytes)
    (hm : (k, v) ∈ s'.met) : ∃ e ∈ sched, v ≠ [] ∧ get e.1 k = v := by
  rcases walk_sound sched start s' hcanon hrun k v hm with h | h
  · simp [start] at h
  · exact h

/-- **on an unchanging trie the pairs met are exactly the contents** -/
theorem exact (t : Node) (hc : Canon t) (ps : List Path) (s' : WState)
    (hrun : wrun start (ps.map fun p => (t, p)) = some s') (hdone : s'.fog = []) (k : Path) (v : Bytes) :
    (k, v) ∈ s'.met ↔ v ≠ [] ∧ get t k = v := walk_exact t hc ps s' hrun hdone k v

/-- **termination**: while no consulted version stores a key longer than `L` nibbles, every step strictly
    decreases a measure that starts at `17^(L+1)`, so the fog is complete after at most that many steps
    whatever the order and the interleaving (termination under unboundedly many ever-longer
    modifications is false and not claimed) -/
theorem step_decreases (L : Nat) (s s' : WState) (hw : Wf s.fog) (hg : Grounded L s.fog) (t : Node) (hc : Canon t)
    (hL : ∀ k, get t k ≠ [] → k.length ≤ L) (p : Path) (hp : p ∈ s.fog) (h : wstep s t p = some s') :
    mu L s'.fog < mu L s.fog ∧ Grounded L s'.fog := wstep_decreases L s s' hw hg t hc hL p hp h

theorem measure_start (L : Nat) : mu L Fog.init = 17 ^ (L + 1) ∧ Grounded L Fog.init := mu_start L

end PyTrie.Props.C09

/-! ## The walk as callers write it, with the `TrieFrontierCache`

`Model/Walk.lean` transcribes the loop body (cache lookup → `traverse_from(cached parent, segment)` or
`traverse(prefix)` → simulated node on a partial path → `explore` → `cache.add` / `cache.delete`); the
correspondence check drives exactly these calls on the real objects. The cached parents are node objects of
*older* versions of the trie. -/
namespace PyTrie.Props.C09
open PyTrie PyTrie.Hex PyTrie.Fog PyTrie.Walk

/-- a concrete step (cache hit or miss) is an abstract step on some version that occurred, and every cache entry
    keeps describing some version at its prefix -/
theorem concrete_step (versions : List Node) (t : Node) (ht : t ∈ versions) (hcv : ∀ v ∈ versions, Canon v)
    (s : CState) (hc : CacheOkV versions s.cache) (p : Path) (s' : CState) (h : cstep t s p = some s') :
    (∃ v ∈ versions, wstep (toW s) v p = some (toW s')) ∧ CacheOkV versions s'.cache :=
  cstep_is_wstep versions t ht hcv s hc p s' h

/-- **the concrete walk with the cache finds every stable key**: `sched` lists the trie's current version and
    the chosen prefix at each step (any order, any interleaving with modifications, stale cache entries
    included); once the fog is complete every key that had the value `val` in all those versions has been met -/
theorem concrete_finds_stable (sched : List (Node × Path)) (s' : CState)
    (hcanon : ∀ e ∈ sched, Canon e.1) (k : Path) (val : Bytes) (hval : val ≠ [])
    (hstable : ∀ e ∈ sched, get e.1 k = val)
    (hrun : crun cstart sched = some s') (hdone : s'.fog = []) : (k, val) ∈ s'.met := by
  have hcv : ∀ v ∈ sched.map Prod.fst, Canon v := by
    intro v hv
    obtain ⟨e, he, rfl⟩ := List.mem_map.mp hv
    exact hcanon e he
  obtain ⟨sched', _, hV, hr⟩ := crun_is_wrun (sched.map Prod.fst) hcv sched cstart s'
    (fun e he => List.mem_map.mpr ⟨e, he, rfl⟩) (cacheOkV_empty _) hrun
  have hcan' : ∀ e ∈ sched', Canon e.1 := fun e he => hcv _ (hV e he)
  have hst' : ∀ e ∈ sched', get e.1 k = val := by
    intro e he
    obtain ⟨e0, he0, h0⟩ := List.mem_map.mp (hV e he)
    rw [← h0]
    exact hstable e0 he0
  exact walk_finds_stable sched' (toW s') hcan' k val hval hst' hr hdone

/-- and it meets nothing that was never stored -/
theorem concrete_sound (sched : List (Node × Path)) (s' : CState)
    (hcanon : ∀ e ∈ sched, Canon e.1) (hrun : crun cstart sched = some s') (k : Path) (v : Bytes)
    (hm : (k, v) ∈ s'.met) : ∃ e ∈ sched, v ≠ [] ∧ get e.1 k = v := by
  have hcv : ∀ v ∈ sched.map Prod.fst, Canon v := by
    intro v hv
    obtain ⟨e, he, rfl⟩ := List.mem_map.mp hv
    exact hcanon e he
  obtain ⟨sched', _, hV, hr⟩ := crun_is_wrun (sched.map Prod.fst) hcv sched cstart s'
    (fun e he => List.mem_map.mpr ⟨e, he, rfl⟩) (cacheOkV_empty _) hrun
  have hcan' : ∀ e ∈ sched', Canon e.1 := fun e he => hcv _ (hV e he)
  obtain ⟨e, he, hne, hg⟩ := sound sched' (toW s') hcan' hr k v hm
  obtain ⟨e0, he0, h0⟩ := List.mem_map.mp (hV e he)
  exact ⟨e0, he0, hne, by rw [h0]; exact hg⟩

end PyTrie.Props.C09

/-! ## A stale cached parent over the current database (raw level)

What a `TrieFrontierCache` entry holds is a node object of an *older* version. `traverse_from(parent, segment)` reads the
children of that node from the database **as it is now**. Because nodes are addressed by the hash of their content, the
current database either still holds the body of each child it needs — then the result is what the older version says — or
it does not (pruned) — then `MissingTraversalNode` names the first absent one; it can never produce a description that
belongs to neither. `PartialD H db parent`: whatever `db` holds under the hash of a hashed subtree of `parent` is that
subtree's encoding (true of any database obtained from consistent writes and removals: `Free.partial_kept_by_*`). -/
namespace PyTrie.Props.C09
open PyTrie PyTrie.Hex PyTrie.HexD PyTrie.HexRaw

theorem stale_parent_truthful (H : Bytes → Bytes) (hlen : ∀ b, (H b).length = 32) (db : Db) (parent : Node) (hc : Canon parent)
    (hst : PartialD H db parent) (seg : Path) (fuel : Nat) (hf : seg.length < fuel) :
    traverseOutD H db fuel (toItem H parent) seg =
      match firstMissingRead H db parent seg [] with
      | some (h, pre) => .error (.missing h pre)
      | none => .ok (TravOut.toD H (traverseOut parent seg)) :=
  traverseOutD_partial H hlen db parent hc hst seg fuel hf

end PyTrie.Props.C09

/-! ## Every earlier version stays consistent with the current database

`ReachVersions H prune ops T s`: the executor's run of a history, with the run-level premises of `ReachOpsNC` and, in
addition, at every step: the step's writes agree with the nodes of every earlier version (no two different nodes among the
versions of the run share a hash). Then whatever the current database — pruned or not — holds under the hash of a node of
ANY earlier version is that node's encoding. With `stale_parent_truthful` (and `C07.raw_traverse_partial`,
`raw_get_partial`): reading an older version through the current database — a stale `TrieFrontierCache` parent, a node kept
from before a mutation, an old root — returns what that version says or reports the first missing node. -/
namespace PyTrie.Props.C09
open PyTrie PyTrie.Hex PyTrie.HexD PyTrie.HexW PyTrie.HexRaw PyTrie.HexFree
open PyTrie.Props.C01 (Op run)

theorem earlier_versions_consistent (H : Bytes → Bytes) (prune : Bool) (ops : List Op) (T : TrieSt) (s : OpSt)
    (h : ReachVersions H prune ops T s) (i : Nat) (hi : i ≤ ops.length) :
    RootPartial H s.store.base (rootHash H (run (ops.take i))) (run (ops.take i)) ∧
    PartialD H s.store.base (run (ops.take i)) :=
  all_versions_consistent H prune ops T s h i hi

/-- one operation keeps any canonical tree consistent with the database, whatever trie it operates on and however it ends -/
theorem op_keeps_other_tree_consistent (H : Bytes → Bytes) (T : TrieSt) (key : Bytes) (val : Option Bytes) (s : OpSt)
    (t0 : Node) (hc0 : Canon t0) (root0 : Hash)
    (hp : RootPartial H s.store.base root0 t0 ∧ PartialD H s.store.base t0)
    (hag : WritesAgree H (opWrites (stdHashing H) T key val) t0) :
    RootPartial H (opSetDel (stdHashing H) (blankRoot H) T key val s).1.store.base root0 t0 ∧
    PartialD H (opSetDel (stdHashing H) (blankRoot H) T key val s).1.store.base t0 :=
  opSetDel_keeps_tree_consistent H T key val s t0 hc0 root0 hp hag

/-- **reading any earlier version through the current database**: `traverse` from the old root's node returns what that
    version says or `MissingTraversalNode` for the first absent node on the path -/
theorem old_version_read_truthful (H : Bytes → Bytes) (hlen : ∀ b, (H b).length = 32) (prune : Bool) (ops : List Op) (T : TrieSt)
    (s : OpSt) (h : ReachVersions H prune ops T s) (i : Nat) (hi : i ≤ ops.length) (p : Path) (fuel : Nat) (hf : p.length < fuel) :
    traverseOutD H s.store.base fuel (toItem H (run (ops.take i))) p =
      match firstMissingRead H s.store.base (run (ops.take i)) p [] with
      | some (h, pre) => .error (.missing h pre)
      | none => .ok (TravOut.toD H (traverseOut (run (ops.take i)) p)) :=
  traverseOutD_partial H hlen s.store.base (run (ops.take i)) (PyTrie.Props.C01.canon_run _)
    (all_versions_consistent H prune ops T s h i hi).2 p fuel hf

end PyTrie.Props.C09

/-! ## The walk step at raw level

`Model/WalkD.lean`: the loop body over a root hash, the database as it is now, and a `TrieFrontierCache` of raw node
bodies — run against the code in every walk of the correspondence check, stale pruned parents included. `toCD` maps a
tree-level walk state to its raw image; `CacheOkD`: every cached parent is canonical and partially consistent with the
database (true along any run: `earlier_versions_consistent`). -/
namespace PyTrie.Props.C09
open PyTrie PyTrie.Hex PyTrie.HexD PyTrie.HexRaw PyTrie.Fog

/-- **the raw-level step is the tree-level step, or `MissingTraversalNode` for a node that really is absent** — so
    `concrete_finds_stable`, `concrete_sound` and the termination measure are statements about the raw-level loop body -/
theorem raw_step_refines (H : Bytes → Bytes) (hlen : ∀ b, (H b).length = 32) (db : Db) (root : Hash) (t : Node) (hc : Canon t)
    (hroot : RootPartial H db root t) (hst : PartialD H db t)
    (s : CState) (hcache : CacheOkD H db s.cache) (p : Path) :
    (∃ h pre, cstepD H db root (toCD H s) p = .error (.missing h pre) ∧ lookup db h = none) ∨
    cstepD H db root (toCD H s) p = .ok ((cstep t s p).map (toCD H)) :=
  cstepD_refines H hlen db root t hc hroot hst s hcache p

/-- the cache invariant of the raw level is kept by every successful step -/
theorem raw_cache_invariant (H : Bytes → Bytes) (db : Db) (t : Node) (hc : Canon t) (hst : PartialD H db t)
    (s : CState) (hcache : CacheOkD H db s.cache) (p : Path) (s' : CState) (h : cstep t s p = some s') :
    CacheOkD H db s'.cache :=
  cstep_cacheOkD H db t hc hst s hcache p s' h

/-- **one step with the caller's retry never raises** on a database complete for the current version, whatever stale
    parents the cache holds (`except MissingTraversalNode: cache.delete(prefix)` and again, from the root — `cstepDR`): it is
    the tree-level step, taken with the cache as it is or after dropping the entry for the prefix -/
theorem raw_step_with_retry (H : Bytes → Bytes) (hlen : ∀ b, (H b).length = 32) (db : Db) (root : Hash) (t : Node) (hc : Canon t)
    (hroot : RootPartial H db root t) (hrootIn : isBlank t = false → (lookup db root).isSome) (hst : StoredD H db t)
    (s : CState) (hcache : CacheOkD H db s.cache) (p : Path) :
    ∃ s0 : CState, (s0 = s ∨ s0 = { s with cache := Fog.Frontier.delete s.cache p }) ∧
      cstepDR H db root (toCD H s) p = .ok ((cstep t s0 p).map (toCD H)) :=
  cstepDR_complete H hlen db root t hc hroot hrootIn hst s hcache p

/-- **the whole walk at raw level** — root hash and database as they are at each step (the trie may be modified between
    steps, pruning on or off), `TrieFrontierCache` of raw bodies, the retry on a stale entry —: under `SchedOk` (each step's
    database is complete for the version current at that step and partially consistent with the earlier versions of the
    schedule, which is what `earlier_versions_consistent` provides along every executor history) it never raises; every
    met pair was stored in some version; and once the fog is complete every key that kept its value through all versions
    has been met with that value -/
theorem raw_walk_finds_stable_and_sound (H : Bytes → Bytes) (hlen : ∀ b, (H b).length = 32) (sched : List StepT)
    (hok : SchedOk H sched) :
    (crunDR H cstartD (sched.map StepT.toD) = .ok none) ∨
    ∃ s' : CState, crunDR H cstartD (sched.map StepT.toD) = .ok (some (toCD H s')) ∧
      (∀ k v, (k, v) ∈ s'.met → ∃ e ∈ sched, v ≠ [] ∧ get e.t k = v) ∧
      (s'.fog = [] → ∀ k val, val ≠ [] → (∀ e ∈ sched, get e.t k = val) → (k, val) ∈ s'.met) :=
  crunDR_is_tree_run H hlen sched hok

/-- **never stuck**: when every scheduled prefix is an unexplored prefix of the fog at that step (what `nearest_unknown` /
    `nearest_right` return), the whole raw-level walk runs to the end of the schedule — no step raises, `explore` accepts
    every description (real or simulated, from the current version or from a stale cached parent) -/
theorem raw_walk_never_stuck (H : Bytes → Bytes) (hlen : ∀ b, (H b).length = 32) (sched : List StepT)
    (hok : SchedOk H sched) (hfog : InFogRun H cstartD (sched.map StepT.toD)) :
    ∃ s' : CState, crunDR H cstartD (sched.map StepT.toD) = .ok (some (toCD H s')) :=
  crunDR_defined H hlen sched hok hfog

end PyTrie.Props.C09

/-! ## The walk interleaved with an executor history, end to end

`WEv` = a `set`/`delete` call of the executor (pruning on or off) or a step of the walk; `schedOf` gives every step the
executor's database and root of that moment. The premise `SchedOk` is discharged from the run-level premise of the history. -/
namespace PyTrie.Props.C09
open PyTrie PyTrie.Hex PyTrie.HexD PyTrie.HexW PyTrie.HexRaw PyTrie.HexFree PyTrie.Fog PyTrie.Walk
open PyTrie.Props.C01 (Op run spec)

/-- **a fog-guided walk over the executor's own databases** — modifications between the steps, pruning on or off, frontier
    cache with stale entries, retry from the root when a stale parent no longer resolves —: never raises; every met pair
    was held by the trie after some prefix of the history; once the fog is complete every key that had the same value at
    every step of the walk has been met with it -/
theorem walk_over_history (H : Bytes → Bytes) (hlen : ∀ b, (H b).length = 32) (prune : Bool) (evs : List WEv) (T : TrieSt)
    (s : OpSt) (h : ReachVersions H prune (opsOf evs) T s) :
    let sched := schedOf H (initT H prune) initS evs
    (crunDR H cstartD (sched.map StepT.toD) = .ok none) ∨
    ∃ s' : CState, crunDR H cstartD (sched.map StepT.toD) = .ok (some (toCD H s')) ∧
      (∀ k v, (k, v) ∈ s'.met → v ≠ [] ∧ ∃ i, i ≤ (opsOf evs).length ∧ get (run ((opsOf evs).take i)) k = v) ∧
      (s'.fog = [] → ∀ k val, val ≠ [] → (∀ e ∈ sched, get e.t k = val) → (k, val) ∈ s'.met) :=
  PyTrie.HexFree.walk_over_history H hlen prune evs T s h

/-- … and with every prefix taken from the fog of that moment it runs to the end of the schedule (no step rejected) -/
theorem walk_over_history_never_stuck (H : Bytes → Bytes) (hlen : ∀ b, (H b).length = 32) (prune : Bool) (evs : List WEv)
    (T : TrieSt) (s : OpSt) (h : ReachVersions H prune (opsOf evs) T s)
    (hfog : InFogRun H cstartD ((schedOf H (initT H prune) initS evs).map StepT.toD)) :
    ∃ s' : CState, crunDR H cstartD ((schedOf H (initT H prune) initS evs).map StepT.toD) = .ok (some (toCD H s')) :=
  PyTrie.HexFree.walk_over_history_never_stuck H hlen prune evs T s h hfog

end PyTrie.Props.C09
