import PyTrie.Props.C06
/-! # C06 — an operation whose FIRST database write is refused changes nothing

The quick check of C06 injects operations whose first write to the database is refused (`failfirst`; seeded change
`C06m-count-before-write`): "after every operation" the counts must be true and the database exact also after such an
operation. In the executor the reference count is incremented only after the write went through (`setDbValue`), reads and
prune marks do not touch database or counts, and the pending marks are dropped on every exit — so the state is exactly what it
was. For every trie, key, value and state, pruning on or off. -/
namespace PyTrie.Props.C06
open PyTrie PyTrie.Hex PyTrie.HexW

private theorem get?_erase_sub' (d : Dict Bytes) (k h : Hash) (b : Bytes)
    (hg : Dict.get? (Dict.erase d k) h = some b) : Dict.get? d h = some b := by
  by_cases he : h = k
  · subst he; rw [Dict.get?_erase_self] at hg; cases hg
  · rw [Dict.get?_erase_other d k h he] at hg; exact hg

private theorem setDbValue_refused (p : Bool) (s : OpSt) (h : Hash) (b : Bytes)
    (hc : s.store.cache = none) (hfa : s.store.failAfter = some 0) :
    setDbValue p s h b = .error .writeFailed := by
  simp [setDbValue, Store.write, hc, hfa]

private theorem runEv_refused_ok (p : Bool) (root key : Bytes) (s s' : OpSt) (e : Ev)
    (hc : s.store.cache = none) (hfa : s.store.failAfter = some 0)
    (h : runEv p root key s e = .ok s') : s'.store = s.store ∧ s'.counts = s.counts := by
  cases e with
  | read x =>
    simp only [runEv] at h
    split at h
    · cases h; exact ⟨rfl, rfl⟩
    · cases h
  | prune x =>
    simp only [runEv] at h
    cases h
    cases p <;> exact ⟨rfl, rfl⟩
  | persist x b =>
    simp only [runEv, setDbValue_refused p s x b hc hfa] at h
    cases h

/-- the only errors of one `_complete_pruning` step are validation errors; it keeps `failAfter` and only erases -/
private theorem pruneStep_inv (s : OpSt) (kn : Hash × Nat) (hc : s.store.cache = none) :
    (∀ e, pruneStep s kn = .error e → e ≠ .writeFailed) ∧
    (∀ s', pruneStep s kn = .ok s' → s'.store.cache = none ∧ s'.store.failAfter = s.store.failAfter ∧
      ∀ h b, Dict.get? s'.store.base h = some b → Dict.get? s.store.base h = some b) := by
  constructor
  · intro e h
    unfold pruneStep at h
    simp only at h
    split at h
    · split at h
      · cases h; intro hh; cases hh
      · cases h
    · cases h
  · intro s' h
    unfold pruneStep at h
    simp only at h
    split at h
    · cases hk : s.store.base.contains kn.1
      · have hd : s.store.del kn.1 = none := by
          unfold Store.del; rw [hc]; simp [hk]
        rw [hd] at h; cases h
      · have hd : s.store.del kn.1 = some { s.store with base := Dict.erase s.store.base kn.1 } := by
          unfold Store.del; rw [hc]; simp [hk, hc]
        rw [hd] at h; cases h
        exact ⟨hc, rfl, fun h b hg => get?_erase_sub' _ _ _ _ hg⟩
    · cases h
      exact ⟨hc, rfl, fun _ _ hg => hg⟩

private theorem completePruning_inv (l : List (Hash × Nat)) (s s' : OpSt) (r : Option Exn)
    (hc : s.store.cache = none) (h : completePruning s l = (s', r)) :
    r ≠ some .writeFailed ∧ s'.store.failAfter = s.store.failAfter ∧
      ∀ h b, Dict.get? s'.store.base h = some b → Dict.get? s.store.base h = some b := by
  induction l generalizing s with
  | nil =>
    simp only [completePruning] at h
    cases h
    exact ⟨(fun hh => by cases hh), rfl, fun _ _ hg => hg⟩
  | cons kn rest ih =>
    simp only [completePruning] at h
    obtain ⟨he, hk⟩ := pruneStep_inv s kn hc
    split at h
    · next s1 h1 =>
      obtain ⟨c1, f1, b1⟩ := hk s1 h1
      obtain ⟨r2, f2, b2⟩ := ih s1 c1 h
      exact ⟨r2, f2.trans f1, fun h b hg => b1 h b (b2 h b hg)⟩
    · next x h1 =>
      cases h
      exact ⟨(fun hh => he x h1 (by cases hh; rfl)), rfl, fun _ _ hg => hg⟩

private theorem finishPrune_inv (T : TrieSt) (s s' : OpSt) (r : Option Exn)
    (hc : s.store.cache = none) (h : finishPrune T s = (s', r)) :
    r ≠ some .writeFailed ∧ s'.store.failAfter = s.store.failAfter ∧
      ∀ h b, Dict.get? s'.store.base h = some b → Dict.get? s.store.base h = some b := by
  unfold finishPrune at h
  split at h
  · exact completePruning_inv _ s s' r hc h
  · cases h
    exact ⟨(fun hh => by cases hh), rfl, fun _ _ hg => hg⟩

section
variable (Hs : Hashing) (blankRootHash : Hash)

private theorem schedOldRoot_store' (T : TrieSt) (s : OpSt) :
    (schedOldRoot Hs blankRootHash T s).store = s.store ∧ (schedOldRoot Hs blankRootHash T s).counts = s.counts := by
  unfold schedOldRoot
  split <;> exact ⟨rfl, rfl⟩

/-- with the next write refused, a `writeRoot` that goes through wrote nothing -/
private theorem writeRoot_refused_ok (T : TrieSt) (new : Node) (s s' : OpSt) (r : Hash)
    (hc : s.store.cache = none) (hfa : s.store.failAfter = some 0)
    (h : writeRoot Hs blankRootHash T new s = .ok (s', r)) : s' = s := by
  unfold writeRoot at h
  split at h
  · cases h; rfl
  · rw [setDbValue_refused T.prune s _ _ hc hfa] at h
    cases h

/-- events up to the first refused write leave store and counts alone -/
theorem runEvs_first_write_refused (prune : Bool) (root key : Bytes) (evs : List Ev) (s : OpSt)
    (hc : s.store.cache = none) (hfa : s.store.failAfter = some 0) :
    (runEvs prune root key s evs).1.store = s.store ∧ (runEvs prune root key s evs).1.counts = s.counts := by
  induction evs generalizing s with
  | nil => exact ⟨rfl, rfl⟩
  | cons e es ih =>
    simp only [runEvs]
    split
    · next s1 h1 =>
      obtain ⟨hs, hn⟩ := runEv_refused_ok prune root key s s1 e hc hfa h1
      obtain ⟨i1, i2⟩ := ih s1 (by rw [hs]; exact hc) (by rw [hs]; exact hfa)
      exact ⟨i1.trans hs, i2.trans hn⟩
    · exact ⟨rfl, rfl⟩

/-- what `opCore` does when the next write is refused -/
private theorem opCore_refused (T : TrieSt) (key : Bytes) (val : Option Bytes) (s : OpSt)
    (hc : s.store.cache = none) (hfa : s.store.failAfter = some 0) :
    ((opCore Hs blankRootHash T key val s).2 = .error .writeFailed →
      (opCore Hs blankRootHash T key val s).1.store = s.store ∧
      (opCore Hs blankRootHash T key val s).1.counts = s.counts) ∧
    (∀ T', (opCore Hs blankRootHash T key val s).2 = .ok T' →
      (opCore Hs blankRootHash T key val s).1.store.failAfter = some 0 ∧
      ∀ h b, Dict.get? (opCore Hs blankRootHash T key val s).1.store.base h = some b →
        Dict.get? s.store.base h = some b) := by
  unfold opCore
  split
  · exact ⟨fun _ => ⟨rfl, rfl⟩, fun T' h => by cases h⟩
  · obtain ⟨rs, rc⟩ := runEvs_first_write_refused T.prune T.root key (opTree Hs T key val).2 s hc hfa
    split
    · next s1 x h1 =>
      rw [h1] at rs rc
      exact ⟨fun _ => ⟨rs, rc⟩, fun T' h => by cases h⟩
    · next s1 h1 =>
      rw [h1] at rs rc
      simp only at rs rc
      obtain ⟨ss, sc⟩ := schedOldRoot_store' Hs blankRootHash T s1
      split
      · next x h2 =>
        exact ⟨fun _ => ⟨ss.trans rs, sc.trans rc⟩, fun T' h => by cases h⟩
      · next s3 newRoot h2 =>
        have hc2 : (schedOldRoot Hs blankRootHash T s1).store.cache = none := by rw [ss, rs]; exact hc
        have hf2 : (schedOldRoot Hs blankRootHash T s1).store.failAfter = some 0 := by rw [ss, rs]; exact hfa
        have e3 := writeRoot_refused_ok Hs blankRootHash T _ _ s3 newRoot hc2 hf2 h2
        subst e3
        split
        · next s4 x h3 =>
          obtain ⟨hne, _, _⟩ := finishPrune_inv T _ s4 _ hc2 h3
          exact ⟨(fun h => by cases h; exact absurd rfl hne), fun T' h => by cases h⟩
        · next s4 h3 =>
          obtain ⟨_, f4, b4⟩ := finishPrune_inv T _ s4 _ hc2 h3
          refine ⟨(fun h => by cases h), fun T' _ => ⟨f4.trans hf2, fun h b hg => ?_⟩⟩
          have := b4 h b hg
          rw [ss, rs] at this
          exact this

/-- **a `set` / `delete` on a plain database that refuses the next write, and that is stopped by that refusal, leaves
    database, failure counter, counts and pending marks exactly as they were** -/
theorem first_write_refused_atomic (T : TrieSt) (key : Bytes) (val : Option Bytes) (s : OpSt)
    (hc : s.store.cache = none) (hfa : s.store.failAfter = some 0)
    (hw : (opSetDel Hs blankRootHash T key val s).2 = .error .writeFailed) :
    (opSetDel Hs blankRootHash T key val s).1.store = s.store ∧
    (opSetDel Hs blankRootHash T key val s).1.counts = s.counts ∧
    (opSetDel Hs blankRootHash T key val s).1.pending = [] := by
  obtain ⟨h1, h2⟩ := (opCore_refused Hs blankRootHash T key val { s with pending := [] } hc hfa).1 hw
  exact ⟨h1, h2, rfl⟩

/-- and when such an operation is NOT stopped (it returns a trie), it had nothing to write: the database is as it was
    except for what `_complete_pruning` deleted, and the failure counter is untouched -/
theorem first_write_refused_ok_wrote_nothing (T : TrieSt) (key : Bytes) (val : Option Bytes) (s : OpSt)
    (hc : s.store.cache = none) (hfa : s.store.failAfter = some 0) (T' : TrieSt)
    (hok : (opSetDel Hs blankRootHash T key val s).2 = .ok T') :
    (opSetDel Hs blankRootHash T key val s).1.store.failAfter = some 0 ∧
    ∀ h b, Dict.get? (opSetDel Hs blankRootHash T key val s).1.store.base h = some b → Dict.get? s.store.base h = some b := by
  exact (opCore_refused Hs blankRootHash T key val { s with pending := [] } hc hfa).2 T' hok

end
end PyTrie.Props.C06
