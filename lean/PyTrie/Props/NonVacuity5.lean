import PyTrie.Props.NonVacuity4
import PyTrie.Props.FreeExec
/-! # Non-vacuity, part 5: concrete histories for the whole-history lockstep theorem

`Free.history_lockstep` assumes `Good H (freshW H prune) steps`: along the run of the tree-carrying world, the run-level
premises (`GoodCall`) of every call executed. Here: a Boolean checker `goodB` for `Good` (mirroring its recursion), its
soundness, a history with two direct writes, a committed block (overwrite + delete + write), an aborted block and a final
direct delete that passes the check under the toy hash `toyH` for `prune = true` and `prune = false`, and the theorem
applied to it. The outcomes, final root and database sizes of the tree-free run are stated concretely. -/
namespace PyTrie.Props.NonVacuity5
open PyTrie PyTrie.Hex PyTrie.Hex.Node PyTrie.HexD
open PyTrie.Props.NonVacuity PyTrie.Props.NonVacuity2 PyTrie.Props.NonVacuity4
open PyTrie.HexW PyTrie.HexRaw PyTrie.HexFree

/-! ## 1. A Boolean checker for `Good` -/
section Checker

variable (H : Bytes → Bytes)

/-- `GoodCall` as a test -/
def goodCallB (T : TrieSt) (s : OpSt) (k : Bytes) (v : Option Bytes) : Bool :=
  refSoundB (stdHashing H) T.tree (nibs k) &&
  (isBlank (opTree (stdHashing H) T k v).1 || !(hashOf H (opTree (stdHashing H) T k v).1 == blankRoot H)) &&
  noClobberB (storeDb s.store) (opWrites (stdHashing H) T k v) &&
  (Dict.get? (storeDb s.store) (blankRoot H)).isNone &&
  (storeDb s.store).all (fun e => decide (e.2.length < 2 ^ 64)) &&
  (match (opSetDel (stdHashing H) (blankRoot H) T k v s).2 with | .ok _ => true | .error _ => false)

theorem goodCall_of_B (T : TrieSt) (s : OpSt) (k : Bytes) (v : Option Bytes) (h : goodCallB H T s k v = true) :
    GoodCall H T s k v := by
  simp only [goodCallB, Bool.and_eq_true, Bool.or_eq_true, Bool.not_eq_true', beq_eq_false_iff_ne,
    Option.isNone_iff_eq_none] at h
  obtain ⟨⟨⟨⟨⟨h1, h2⟩, h3⟩, h4⟩, h5⟩, h6⟩ := h
  refine ⟨refSound_of_B _ _ _ h1, fun hb => ?_, noClobber_of_B _ _ h3, h4, bodies_short _ _ h5, ?_⟩
  · rcases h2 with h2 | h2
    · rw [hb] at h2; cases h2
    · exact h2
  · split at h6
    · next T' hT => exact ⟨T', hT⟩
    · cases h6

/-- `GoodInner` as a test -/
def goodInnerB : World → List (Bytes × Option Bytes) → Bool
  | _, [] => true
  | w, (k, v) :: rest =>
    (match w.batch with
     | some b => goodCallB H b.trie (w.batchOpSt b) k v
     | none => false) &&
    goodInnerB (w.setDel (stdHashing H) (blankRoot H) .batch k v).2 rest

theorem goodInner_of_B (w : World) (inner : List (Bytes × Option Bytes)) (h : goodInnerB H w inner = true) :
    GoodInner H w inner := by
  induction inner generalizing w with
  | nil => trivial
  | cons kv rest ih =>
    obtain ⟨k, v⟩ := kv
    simp only [goodInnerB, Bool.and_eq_true] at h
    refine ⟨?_, ih _ h.2⟩
    have h1 := h.1
    cases hb : w.batch with
    | none => rw [hb] at h1; cases h1
    | some b => rw [hb] at h1; exact goodCall_of_B H _ _ k v h1

/-- `Good` as a test -/
def goodB : World → List HStep → Bool
  | _, [] => true
  | w, .op k v :: rest =>
    goodCallB H w.tries[0]! (w.opSt 0) k v && goodB (HexFree.stepW H w (.op k v)).2 rest
  | w, .block inner raised :: rest =>
    goodInnerB H (w.batchBegin 0) inner && goodB (HexFree.stepW H w (.block inner raised)).2 rest

/-- **a history that passes the test satisfies `Good`** -/
theorem good_of_B (w : World) (steps : List HStep) (h : goodB H w steps = true) : Good H w steps := by
  induction steps generalizing w with
  | nil => trivial
  | cons s rest ih =>
    cases s with
    | op k v =>
      simp only [goodB, Bool.and_eq_true] at h
      exact ⟨goodCall_of_B H _ _ k v h.1, ih _ h.2⟩
    | block inner raised =>
      simp only [goodB, Bool.and_eq_true] at h
      exact ⟨goodInner_of_B H _ inner h.1, ih _ h.2⟩

end Checker

/-! ## 2. The history -/

/-- * `set k1 longV` — a direct write of a 33-byte value (the root is a hashed leaf);
    * `set k2 [5]` — a direct write: root extension over a hashed branch with a hashed and an embedded leaf;
    * a block left normally: `set k1 longW` (overwrite of the long value), `delete k2`, `set k3 longV`;
    * a block left by an exception: `set k2 [9]`;
    * `delete k1` — a direct delete: the branch collapses, the root is the (hashed) leaf of `k3`. -/
def steps : List HStep :=
  [.op k1 (some longV), .op k2 (some [5]),
   .block [(k1, some longW), (k2, none), (k3, some longV)] false,
   .block [(k2, some [9])] true,
   .op k1 none]

example : 5 ≤ steps.length := by decide

/-- the run-level premises of every call of the history hold along the run of the tree-carrying world, on a pruning trie … -/
theorem steps_good_p : goodB toyH (freshW toyH true) steps = true := by decide +kernel

/-- … and on a non-pruning one -/
theorem steps_good_np : goodB toyH (freshW toyH false) steps = true := by decide +kernel

theorem good_p : Good toyH (freshW toyH true) steps := good_of_B toyH _ steps steps_good_p

theorem good_np : Good toyH (freshW toyH false) steps := good_of_B toyH _ steps steps_good_np

/-! ## 3. `history_lockstep` on the witness -/

/-- **`Free.history_lockstep` applies, pruning on**: same outcomes call by call, `Sim`-related final worlds -/
theorem lockstep_witness_p :
    (runF toyH (FWorld.init toyH true) steps).1 = (HexFree.runW toyH (freshW toyH true) steps).1 ∧
    Sim (runF toyH (FWorld.init toyH true) steps).2 (HexFree.runW toyH (freshW toyH true) steps).2 :=
  Free.history_lockstep toyH toyH_len true steps good_p

/-- **`Free.history_lockstep` applies, pruning off** -/
theorem lockstep_witness_np :
    (runF toyH (FWorld.init toyH false) steps).1 = (HexFree.runW toyH (freshW toyH false) steps).1 ∧
    Sim (runF toyH (FWorld.init toyH false) steps).2 (HexFree.runW toyH (freshW toyH false) steps).2 :=
  Free.history_lockstep toyH toyH_len false steps good_np

/-! ## 4. What the runs return -/

def okB : Except Exn Unit → Bool
  | .ok _ => true
  | .error _ => false

theorem all_ok_of_B (l : List (Except Exn Unit)) (n : Nat) (h : (l.length == n && l.all okB) = true) :
    l = List.replicate n (.ok ()) := by
  simp only [Bool.and_eq_true, beq_iff_eq, List.all_eq_true] at h
  obtain ⟨hl, ha⟩ := h
  subst hl
  induction l with
  | nil => rfl
  | cons a r ih =>
    have h1 := ha a (List.mem_cons_self ..)
    cases a with
    | error e => cases h1
    | ok u =>
      rw [List.length_cons, List.replicate_succ, ← ih fun x hx => ha x (List.mem_cons_of_mem _ hx)]

/-- the tree-free run, pruning on: the nine outcomes (2 direct calls; 3 calls and the commit of the first block; 1 call and
    the exit of the second block; 1 direct call) are all normal returns -/
theorem outcomes_p : (runF toyH (FWorld.init toyH true) steps).1 = List.replicate 9 (.ok ()) :=
  all_ok_of_B _ 9 (by decide +kernel)

theorem outcomes_np : (runF toyH (FWorld.init toyH false) steps).1 = List.replicate 9 (.ok ()) :=
  all_ok_of_B _ 9 (by decide +kernel)

/-- hence so do the nine calls of the tree-carrying world -/
theorem outcomes_world_p : (HexFree.runW toyH (freshW toyH true) steps).1 = List.replicate 9 (.ok ()) :=
  lockstep_witness_p.1 ▸ outcomes_p

theorem outcomes_world_np : (HexFree.runW toyH (freshW toyH false) steps).1 = List.replicate 9 (.ok ()) :=
  lockstep_witness_np.1 ▸ outcomes_np

/-- the final tree: only `k3` is left, in a hashed leaf -/
def tFinal : Node := leaf (nibs k3) longV

/-- the final root of the tree-free world is the hash of that leaf, in both modes, no block is open … -/
theorem final_root :
    (runF toyH (FWorld.init toyH true) steps).2.outer.root = hashOf toyH tFinal ∧
    (runF toyH (FWorld.init toyH false) steps).2.outer.root = hashOf toyH tFinal ∧
    (runF toyH (FWorld.init toyH true) steps).2.outer.prune = true ∧
    (runF toyH (FWorld.init toyH false) steps).2.outer.prune = false ∧
    (runF toyH (FWorld.init toyH true) steps).2.batch.isNone = true ∧
    (runF toyH (FWorld.init toyH false) steps).2.batch.isNone = true := by
  decide +kernel

/-- … and it is the root of the tree the tree-carrying world ends with -/
theorem final_tree :
    sameB ((HexFree.runW toyH (freshW toyH true) steps).2.tries[0]!).tree tFinal = true ∧
    sameB ((HexFree.runW toyH (freshW toyH false) steps).2.tries[0]!).tree tFinal = true := by
  decide +kernel

/-- the final database: the pruning run keeps exactly the final root (reference count 1), the non-pruning run all nine
    nodes ever written by a direct call or a committed block -/
theorem final_db :
    (runF toyH (FWorld.init toyH true) steps).2.base = [(hashOf toyH tFinal, enc toyH tFinal)] ∧
    (runF toyH (FWorld.init toyH true) steps).2.counts = [(hashOf toyH tFinal, 1)] ∧
    (runF toyH (FWorld.init toyH true) steps).2.base.length = 1 ∧
    (runF toyH (FWorld.init toyH false) steps).2.base.length = 9 ∧
    (runF toyH (FWorld.init toyH false) steps).2.counts = [] := by
  decide +kernel

/-- the tree-carrying world ends with the same database (from `Sim`) -/
theorem final_db_world :
    (HexFree.runW toyH (freshW toyH true) steps).2.base.length = 1 ∧
    (HexFree.runW toyH (freshW toyH false) steps).2.base.length = 9 := by
  rw [← lockstep_witness_p.2.1, ← lockstep_witness_np.2.1]
  exact ⟨final_db.2.2.1, final_db.2.2.2.1⟩

/-- database sizes of the tree-free world after each step of the history (pruning, non-pruning): the committed block
    (step 3: overwrite, delete, write) brings the pruned database from 3 to 4 entries and the unpruned one from 4 to 7; the
    aborted block (step 4) changes neither; the final delete prunes down to one entry -/
theorem base_sizes :
    (List.range 6).map (fun i => ((runF toyH (FWorld.init toyH true) (steps.take i)).2.base.length,
      (runF toyH (FWorld.init toyH false) (steps.take i)).2.base.length)) =
    [(0, 0), (1, 1), (3, 4), (4, 7), (4, 7), (1, 9)] := by
  decide +kernel

/-- the block left by an exception ran its `set` (outcome `.ok`, then `.ok` for leaving) and changed nothing: database,
    root, reference counts are those before the block, and no block is left open — pruning on … -/
theorem aborted_block_noop_p :
    let before := (runF toyH (FWorld.init toyH true) (steps.take 3)).2
    let r := stepF toyH before (.block [(k2, some [9])] true)
    okB <$> r.1 = [true, true] ∧ r.2.base = before.base ∧ r.2.outer.root = before.outer.root ∧
    r.2.outer.prune = before.outer.prune ∧ r.2.counts = before.counts ∧ r.2.failAfter = before.failAfter ∧
    r.2.batch.isNone = true ∧ before.batch.isNone = true := by
  decide +kernel

/-- … and off -/
theorem aborted_block_noop_np :
    let before := (runF toyH (FWorld.init toyH false) (steps.take 3)).2
    let r := stepF toyH before (.block [(k2, some [9])] true)
    okB <$> r.1 = [true, true] ∧ r.2.base = before.base ∧ r.2.outer.root = before.outer.root ∧
    r.2.outer.prune = before.outer.prune ∧ r.2.counts = before.counts ∧ r.2.failAfter = before.failAfter ∧
    r.2.batch.isNone = true ∧ before.batch.isNone = true := by
  decide +kernel

/-- which buffered entries of the open block are writes (`true`) and which are deletes (`false`) -/
def cacheShape (fw : FWorld) : List Bool :=
  match fw.batch with
  | some b => b.cache.map (·.2.isSome)
  | none => []

/-- inside the aborted block the write was really buffered: after the `set` the cache of the open block holds buffered
    writes of the new root and branch and buffered deletes of the old root and branch, while the database is untouched -/
theorem aborted_block_buffered :
    cacheShape (innerF toyH (runF toyH (FWorld.init toyH true) (steps.take 3)).2.batchBegin [(k2, some [9])]).2 =
      [true, true, false, false] ∧
    (innerF toyH (runF toyH (FWorld.init toyH true) (steps.take 3)).2.batchBegin [(k2, some [9])]).2.base =
      (runF toyH (FWorld.init toyH true) (steps.take 3)).2.base ∧
    cacheShape (innerF toyH (runF toyH (FWorld.init toyH false) (steps.take 3)).2.batchBegin [(k2, some [9])]).2 =
      [true, true, false, false] ∧
    (innerF toyH (runF toyH (FWorld.init toyH false) (steps.take 3)).2.batchBegin [(k2, some [9])]).2.base =
      (runF toyH (FWorld.init toyH false) (steps.take 3)).2.base := by
  decide +kernel

/-- the cache of the committed block just before it is left: ten entries, four buffered writes and six buffered deletes
    (on the non-pruning trie the commit pushes only the writes) -/
theorem committed_block_cache :
    cacheShape (innerF toyH (runF toyH (FWorld.init toyH true) (steps.take 2)).2.batchBegin
      [(k1, some longW), (k2, none), (k3, some longV)]).2 =
      [true, false, false, false, false, true, false, false, true, true] ∧
    cacheShape (innerF toyH (runF toyH (FWorld.init toyH false) (steps.take 2)).2.batchBegin
      [(k1, some longW), (k2, none), (k3, some longV)]).2 =
      [true, false, false, false, false, true, false, false, true, true] := by
  decide +kernel

/-- the committed block did change the root and the database -/
theorem committed_block_changes :
    (runF toyH (FWorld.init toyH true) (steps.take 2)).2.outer.root ≠
      (runF toyH (FWorld.init toyH true) (steps.take 3)).2.outer.root ∧
    (runF toyH (FWorld.init toyH true) (steps.take 3)).2.outer.root =
      hashOf toyH (ext [1] (branch (upd (upd emptyCh 2 (leaf [] longW)) 4 (leaf [] longV)) [])) := by
  decide +kernel

end PyTrie.Props.NonVacuity5

section Axioms
open PyTrie.Props.NonVacuity5
end Axioms
