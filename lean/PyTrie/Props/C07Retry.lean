import PyTrie.Props.C07
import PyTrie.Lemmas.RetryLoop
/-! # C07 — the whole retry loop ("retrying after supplying only the reported node always converges to the correct result,
asking for each node at most once")

`C07.get_retry_progress` / `set_delete_retry_progress` are the one-attempt statements: after supplying the reported node the
same call never names that hash again and strictly fewer fetches are outstanding. Here the caller's LOOP is written out —
attempt; on `MissingTrieNode h` fetch exactly `h` from a source `full` that has the nodes, store it, attempt again — and
proved to end within `outstanding + 2` attempts with a result that is no `MissingTrieNode`, having asked for no hash twice,
and only for hashes that were absent. For a lookup the result is the value of the complete database. -/
namespace PyTrie.Props.C07
open PyTrie PyTrie.Hex PyTrie.HexW

section
variable (Hs : Hashing) (blankRootHash : Hash)

def supply (s : OpSt) (h : Hash) (body : Bytes) : OpSt :=
  { s with store := { s.store with base := Dict.insert s.store.base h body } }

/-- the retry loop around `get`: `none` = fuel exhausted; second component = the hashes asked for, latest first -/
def retryGet (full : Dict Bytes) (T : TrieSt) (key : Bytes) : Nat → OpSt → List Hash → Option (Except Exn Bytes) × List Hash
  | 0, _, asked => (none, asked)
  | fuel + 1, s, asked =>
    match opGet Hs blankRootHash T key s with
    | .error (.missingTrieNode h root rk pre) =>
      (match Dict.get? full h with
       | some body => retryGet full T key fuel (supply s h body) (h :: asked)
       | none => (some (.error (.missingTrieNode h root rk pre)), asked))
    | r => (some r, asked)

/-- the retry loop around `set` / `delete` (a failed attempt leaves the state untouched: `set_delete_missing_atomic`) -/
def retryOp (full : Dict Bytes) (T : TrieSt) (key : Bytes) (val : Option Bytes) :
    Nat → OpSt → List Hash → Option (OpSt × Except Exn TrieSt) × List Hash
  | 0, _, asked => (none, asked)
  | fuel + 1, s, asked =>
    match (opSetDel Hs blankRootHash T key val s).2 with
    | .error (.missingTrieNode h root rk pre) =>
      (match Dict.get? full h with
       | some body => retryOp full T key val fuel (supply s h body) (h :: asked)
       | none => (some ((opSetDel Hs blankRootHash T key val s).1, .error (.missingTrieNode h root rk pre)), asked))
    | r => (some ((opSetDel Hs blankRootHash T key val s).1, r), asked)

private theorem supply_contains_self (s : OpSt) (h : Hash) (body : Bytes) :
    (supply s h body).store.contains h = true := Store.contains_insert_self s.store h body

private theorem supply_contains_mono (s : OpSt) (h : Hash) (body : Bytes) (x : Hash)
    (hx : s.store.contains x = true) : (supply s h body).store.contains x = true :=
  Store.contains_insert_mono s.store h x body hx

private theorem retryGet_succ_missing (full : Dict Bytes) (T : TrieSt) (key : Bytes) (fuel : Nat) (s : OpSt)
    (asked : List Hash) (h root rk : Bytes) (pre : Option Path) (body : Bytes)
    (hres : opGet Hs blankRootHash T key s = .error (.missingTrieNode h root rk pre))
    (hb : Dict.get? full h = some body) :
    retryGet Hs blankRootHash full T key (fuel + 1) s asked =
      retryGet Hs blankRootHash full T key fuel (supply s h body) (h :: asked) := by
  rw [retryGet]
  simp only [hres, hb]

private theorem retryGet_succ_ok (full : Dict Bytes) (T : TrieSt) (key : Bytes) (fuel : Nat) (s : OpSt)
    (asked : List Hash) (v : Bytes) (hres : opGet Hs blankRootHash T key s = .ok v) :
    retryGet Hs blankRootHash full T key (fuel + 1) s asked = (some (.ok v), asked) := by
  rw [retryGet]
  simp only [hres]

private theorem retryGet_gen (full : Dict Bytes) (T : TrieSt) (hc : Canon T.tree) (key : Bytes) (s₀ : OpSt)
    (hroot : T.root ≠ blankRootHash → Dict.contains full T.root = true)
    (hfull : ∀ e ∈ traverseReads Hs T.tree (nibs key) [], Dict.contains full e.1 = true) :
    ∀ (fuel : Nat) (s : OpSt) (asked : List Hash),
      (∀ x, s₀.store.contains x = true → s.store.contains x = true) →
      (∀ h ∈ asked, s₀.store.contains h = false ∧ Dict.contains full h = true ∧ s.store.contains h = true) →
      asked.Nodup →
      (outstanding Hs T key s.store).length + rootFlag blankRootHash T s.store + 1 ≤ fuel →
      (retryGet Hs blankRootHash full T key fuel s asked).1 = some (.ok (Hex.get T.tree (nibs key))) ∧
      (retryGet Hs blankRootHash full T key fuel s asked).2.Nodup ∧
      ∀ h ∈ (retryGet Hs blankRootHash full T key fuel s asked).2,
        s₀.store.contains h = false ∧ Dict.contains full h = true := by
  intro fuel
  induction fuel with
  | zero => intro s asked _ _ _ hf; omega
  | succ fuel ih =>
    intro s asked hmono hasked hnd hf
    cases hres : opGet Hs blankRootHash T key s with
    | ok v =>
      rw [retryGet_succ_ok Hs blankRootHash full T key fuel s asked v hres]
      have hv := opGet_ok Hs blankRootHash T hc key s v hres
      subst hv
      exact ⟨rfl, hnd, fun h hh => ⟨(hasked h hh).1, (hasked h hh).2.1⟩⟩
    | error e =>
      obtain ⟨h, root, rk, pre, rfl⟩ := opGet_error_kind Hs blankRootHash T hc key s e hres
      have hstep := fun body => opGet_retry_step Hs blankRootHash T key s h root rk pre (supply s h body).store hres
        (supply_contains_self s h body) (fun x hx => supply_contains_mono s h body x hx)
      have hfullh : Dict.contains full h = true := by
        rcases (hstep []).2.1 with ⟨hne, rfl⟩ | hm
        · exact hroot hne
        · obtain ⟨e, he, rfl⟩ := List.mem_map.1 hm
          exact hfull e he
      obtain ⟨body, hb⟩ := Dict.get?_of_contains full h hfullh
      rw [retryGet_succ_missing Hs blankRootHash full T key fuel s asked h root rk pre body hres hb]
      obtain ⟨habs, _, hlt⟩ := hstep body
      apply ih
      · exact fun x hx => supply_contains_mono s h body x (hmono x hx)
      · intro x hx
        rcases List.mem_cons.1 hx with rfl | hx
        · refine ⟨?_, hfullh, supply_contains_self s x body⟩
          cases hc0 : s₀.store.contains x
          · rfl
          · have := hmono _ hc0
            rw [habs] at this; cases this
        · obtain ⟨a, b, c⟩ := hasked x hx
          exact ⟨a, b, supply_contains_mono s h body x c⟩
      · refine List.nodup_cons.2 ⟨fun hin => ?_, hnd⟩
        have := (hasked h hin).2.2
        rw [habs] at this; cases this
      · omega

/-- **the lookup retry loop converges to the value of the complete database**, asks for no hash twice, and only for hashes
    that were absent from the store it started with and that the source has -/
theorem get_retry_loop_converges (full : Dict Bytes) (T : TrieSt) (hc : Canon T.tree) (key : Bytes) (s : OpSt)
    (hroot : T.root ≠ blankRootHash → Dict.contains full T.root = true)
    (hfull : ∀ e ∈ traverseReads Hs T.tree (nibs key) [], Dict.contains full e.1 = true)
    (fuel : Nat) (hf : (outstanding Hs T key s.store).length + 2 ≤ fuel) :
    (retryGet Hs blankRootHash full T key fuel s []).1 = some (.ok (Hex.get T.tree (nibs key))) ∧
    (retryGet Hs blankRootHash full T key fuel s []).2.Nodup ∧
    ∀ h ∈ (retryGet Hs blankRootHash full T key fuel s []).2, s.store.contains h = false ∧ Dict.contains full h = true := by
  have h1 := rootFlag_le_one blankRootHash T s.store
  exact retryGet_gen Hs blankRootHash full T hc key s hroot hfull fuel s [] (fun _ hx => hx)
    (fun h hh => by cases hh) List.nodup_nil (by omega)

private theorem retryOp_succ_missing (full : Dict Bytes) (T : TrieSt) (key : Bytes) (val : Option Bytes) (fuel : Nat)
    (s : OpSt) (asked : List Hash) (h root rk : Bytes) (pre : Option Path) (body : Bytes)
    (hres : (opSetDel Hs blankRootHash T key val s).2 = .error (.missingTrieNode h root rk pre))
    (hb : Dict.get? full h = some body) :
    retryOp Hs blankRootHash full T key val (fuel + 1) s asked =
      retryOp Hs blankRootHash full T key val fuel (supply s h body) (h :: asked) := by
  rw [retryOp]
  simp only [hres, hb]

private theorem retryOp_succ_other (full : Dict Bytes) (T : TrieSt) (key : Bytes) (val : Option Bytes) (fuel : Nat)
    (s : OpSt) (asked : List Hash)
    (hne : ∀ h root rk pre, (opSetDel Hs blankRootHash T key val s).2 ≠ .error (.missingTrieNode h root rk pre)) :
    retryOp Hs blankRootHash full T key val (fuel + 1) s asked =
      (some ((opSetDel Hs blankRootHash T key val s).1, (opSetDel Hs blankRootHash T key val s).2), asked) := by
  rw [retryOp]
  split
  · next h root rk pre heq => exact absurd heq (hne h root rk pre)
  · rfl

private theorem retryOp_gen (full : Dict Bytes) (T : TrieSt) (key : Bytes) (val : Option Bytes) (s₀ : OpSt)
    (hroot : T.root ≠ blankRootHash → Dict.contains full T.root = true)
    (hfull : ∀ e ∈ (opTree Hs T key val).2, ∀ h, e = Ev.read h → Dict.contains full h = true) :
    ∀ (fuel : Nat) (s : OpSt) (asked : List Hash),
      (∀ x, s₀.store.contains x = true → s.store.contains x = true) →
      (∀ h ∈ asked, s₀.store.contains h = false ∧ Dict.contains full h = true ∧ s.store.contains h = true) →
      asked.Nodup →
      (outstandingOp Hs T key val s.store).length + rootFlag blankRootHash T s.store + 1 ≤ fuel →
      ∃ s' r, (retryOp Hs blankRootHash full T key val fuel s asked).1 = some (s', r) ∧
        (∀ h root rk pre, r ≠ .error (.missingTrieNode h root rk pre)) ∧
        (∀ T', r = .ok T' → T'.tree = (opTree Hs T key val).1) ∧
        (retryOp Hs blankRootHash full T key val fuel s asked).2.Nodup ∧
        ∀ h ∈ (retryOp Hs blankRootHash full T key val fuel s asked).2,
          s₀.store.contains h = false ∧ Dict.contains full h = true := by
  intro fuel
  induction fuel with
  | zero => intro s asked _ _ _ hf; omega
  | succ fuel ih =>
    intro s asked hmono hasked hnd hf
    by_cases hmiss : ∃ h root rk pre,
        (opSetDel Hs blankRootHash T key val s).2 = .error (.missingTrieNode h root rk pre)
    · obtain ⟨h, root, rk, pre, hres⟩ := hmiss
      have hstep := fun body => opSetDel_retry_step Hs blankRootHash T key val s h root rk pre (supply s h body).store hres
        (supply_contains_self s h body) (fun x hx => supply_contains_mono s h body x hx)
      have hfullh : Dict.contains full h = true := by
        rcases (hstep []).2.1 with ⟨hne, rfl⟩ | hm
        · exact hroot hne
        · exact hfull _ hm h rfl
      obtain ⟨body, hb⟩ := Dict.get?_of_contains full h hfullh
      rw [retryOp_succ_missing Hs blankRootHash full T key val fuel s asked h root rk pre body hres hb]
      obtain ⟨habs, _, hlt⟩ := hstep body
      apply ih
      · exact fun x hx => supply_contains_mono s h body x (hmono x hx)
      · intro x hx
        rcases List.mem_cons.1 hx with rfl | hx
        · refine ⟨?_, hfullh, supply_contains_self s x body⟩
          cases hc0 : s₀.store.contains x
          · rfl
          · have := hmono _ hc0
            rw [habs] at this; cases this
        · obtain ⟨a, b, c⟩ := hasked x hx
          exact ⟨a, b, supply_contains_mono s h body x c⟩
      · refine List.nodup_cons.2 ⟨fun hin => ?_, hnd⟩
        have := (hasked h hin).2.2
        rw [habs] at this; cases this
      · omega
    · have hne : ∀ h root rk pre,
          (opSetDel Hs blankRootHash T key val s).2 ≠ .error (.missingTrieNode h root rk pre) :=
        fun h root rk pre heq => hmiss ⟨h, root, rk, pre, heq⟩
      rw [retryOp_succ_other Hs blankRootHash full T key val fuel s asked hne]
      exact ⟨_, _, rfl, hne, fun T' hT => opSetDel_ok_tree Hs blankRootHash T key val s T' hT, hnd,
        fun h hh => ⟨(hasked h hh).1, (hasked h hh).2.1⟩⟩

/-- **the `set` / `delete` retry loop ends with a result that is no `MissingTrieNode`** (within `outstanding + 2` attempts),
    asks for no hash twice, only for hashes that were absent; when the final attempt returns a trie it is the tree-level
    result -/
theorem op_retry_loop_converges (full : Dict Bytes) (T : TrieSt) (key : Bytes) (val : Option Bytes) (s : OpSt)
    (hroot : T.root ≠ blankRootHash → Dict.contains full T.root = true)
    (hfull : ∀ e ∈ (opTree Hs T key val).2, ∀ h, e = Ev.read h → Dict.contains full h = true)
    (fuel : Nat) (hf : (outstandingOp Hs T key val s.store).length + 2 ≤ fuel) :
    ∃ s' r, (retryOp Hs blankRootHash full T key val fuel s []).1 = some (s', r) ∧
      (∀ h root rk pre, r ≠ .error (.missingTrieNode h root rk pre)) ∧
      (∀ T', r = .ok T' → T'.tree = (opTree Hs T key val).1) ∧
      (retryOp Hs blankRootHash full T key val fuel s []).2.Nodup ∧
      ∀ h ∈ (retryOp Hs blankRootHash full T key val fuel s []).2, s.store.contains h = false ∧ Dict.contains full h = true := by
  have h1 := rootFlag_le_one blankRootHash T s.store
  exact retryOp_gen Hs blankRootHash full T key val s hroot hfull fuel s [] (fun _ hx => hx)
    (fun h hh => by cases hh) List.nodup_nil (by omega)

end
end PyTrie.Props.C07
