import PyTrie.Props.HistoryBlocks
import PyTrie.Lemmas.FailCommitAux
/-! # C05 — "the trie remains fully usable and correct afterwards": histories with FAILING COMMITS on a non-pruning trie

`Props/HistoryBlocks.lean` covers histories of direct calls and blocks left normally or by an exception. Here a third kind
of step: a block whose body runs normally and whose commit is cut short by the database — the `(n+1)`-th write of
`ScratchDB.batch_commit` is refused (`failBlock inner n`; the harness does exactly this with a dict that raises). The outer
trie is NON-pruning (the property states the commit-failure clause for non-pruning tries; a pruning commit deletes, and an
interrupted delete phase cannot be undone).

`GoodF`: the premises of `Good` for ordinary steps and for the calls inside the failing block, plus that the commit really is
cut short (`.error .writeFailed`; otherwise the step is an ordinary committed block).

Theorems: along every such history the tree-free world and the tree-carrying world agree call by call; at the end the trie
holds the tree of the flattened history in which a block with a failed commit contributes NOTHING, the database is complete
for it, nothing any earlier database held was lost, and `get` returns the map model's value. -/
namespace PyTrie.Props.Free
open PyTrie PyTrie.Hex PyTrie.HexD PyTrie.HexW PyTrie.HexRaw PyTrie.HexFree
open PyTrie.Props.C01 (Op run spec)

inductive HStepF where
  | step (s : HStep)
  | failBlock (inner : List (Bytes × Option Bytes)) (n : Nat)

section
variable (H : Bytes → Bytes)

/-- tree-carrying world: the body runs on the batch trie, then the commit with the `(n+1)`-th database write refused; the
    fault is cleared afterwards (as the harness does) -/
def stepWF (w : World) : HStepF → List (Except Exn Unit) × World
  | .step s => stepW H w s
  | .failBlock inner n =>
    let (rs, w1) := innerW H (w.batchBegin 0) inner
    let (r, w2) := ({ w1 with failAfter := some n } : World).batchEnd false
    (rs ++ [r], { w2 with failAfter := none })

/-- tree-free world, the same -/
def stepFF (fw : FWorld) : HStepF → List (Except Exn Unit) × FWorld
  | .step s => stepF H fw s
  | .failBlock inner n =>
    let (rs, f1) := innerF H fw.batchBegin inner
    let (r, f2) := ({ f1 with failAfter := some n } : FWorld).batchEnd false
    (rs ++ [r], { f2 with failAfter := none })

def runWF (w : World) : List HStepF → List (Except Exn Unit) × World
  | [] => ([], w)
  | s :: rest => let (a, w') := stepWF H w s; let (b, w'') := runWF w' rest; (a ++ b, w'')

def runFF (fw : FWorld) : List HStepF → List (Except Exn Unit) × FWorld
  | [] => ([], fw)
  | s :: rest => let (a, f') := stepFF H fw s; let (b, f'') := runFF f' rest; (a ++ b, f'')

/-- run-level premises along the run of the tree-carrying world -/
def GoodF : World → List HStepF → Prop
  | _, [] => True
  | w, .step s :: rest => Good H w [s] ∧ GoodF (stepWF H w (.step s)).2 rest
  | w, .failBlock inner n :: rest =>
    GoodInner H (w.batchBegin 0) inner ∧
    (({ (innerW H (w.batchBegin 0) inner).2 with failAfter := some n } : World).batchEnd false).1 = .error .writeFailed ∧
    GoodF (stepWF H w (.failBlock inner n)).2 rest

/-- the calls that count: a block whose commit failed contributes nothing -/
def flattenStepsF : List HStepF → List Op
  | [] => []
  | .step s :: r => flattenSteps [s] ++ flattenStepsF r
  | .failBlock _ _ :: r => flattenStepsF r

theorem stepWF_fail_snd (w : World) (inner : List (Bytes × Option Bytes)) (n : Nat) :
    (stepWF H w (.failBlock inner n)).2 =
      { (({ (innerW H (w.batchBegin 0) inner).2 with failAfter := some n } : World).batchEnd false).2 with
        failAfter := none } := rfl

theorem stepWF_fail_fst (w : World) (inner : List (Bytes × Option Bytes)) (n : Nat) :
    (stepWF H w (.failBlock inner n)).1 =
      (innerW H (w.batchBegin 0) inner).1 ++
        [(({ (innerW H (w.batchBegin 0) inner).2 with failAfter := some n } : World).batchEnd false).1] := rfl

theorem stepFF_fail_snd (fw : FWorld) (inner : List (Bytes × Option Bytes)) (n : Nat) :
    (stepFF H fw (.failBlock inner n)).2 =
      { (({ (innerF H fw.batchBegin inner).2 with failAfter := some n } : FWorld).batchEnd false).2 with
        failAfter := none } := rfl

theorem stepFF_fail_fst (fw : FWorld) (inner : List (Bytes × Option Bytes)) (n : Nat) :
    (stepFF H fw (.failBlock inner n)).1 =
      (innerF H fw.batchBegin inner).1 ++
        [(({ (innerF H fw.batchBegin inner).2 with failAfter := some n } : FWorld).batchEnd false).1] := rfl

theorem runWF_cons (w : World) (s : HStepF) (rest : List HStepF) :
    runWF H w (s :: rest) =
      ((stepWF H w s).1 ++ (runWF H (stepWF H w s).2 rest).1, (runWF H (stepWF H w s).2 rest).2) := rfl

theorem runFF_cons (fw : FWorld) (s : HStepF) (rest : List HStepF) :
    runFF H fw (s :: rest) =
      ((stepFF H fw s).1 ++ (runFF H (stepFF H fw s).2 rest).1, (runFF H (stepFF H fw s).2 rest).2) := rfl

/-- **one block with a failing commit on a non-pruning trie**: the outer trie (root, tree, counts) is exactly as before,
    every binding of the database is still there, the block is closed, the fault cleared, and the between-steps invariant
    (`WInv`: canonical tree, database complete for the root) holds again -/
theorem fail_block_step (w : World) (hinv : WInv H false w) (inner : List (Bytes × Option Bytes)) (n : Nat)
    (hg : GoodInner H (w.batchBegin 0) inner)
    (hfail : (({ (innerW H (w.batchBegin 0) inner).2 with failAfter := some n } : World).batchEnd false).1 = .error .writeFailed) :
    WInv H false (stepWF H w (.failBlock inner n)).2 ∧
    (stepWF H w (.failBlock inner n)).2.tries = w.tries ∧
    (stepWF H w (.failBlock inner n)).2.counts = w.counts ∧
    Preserved w.base (stepWF H w (.failBlock inner n)).2.base := by
  have hb1 := binv_begin H false w hinv
  obtain ⟨i1, _, _, _⟩ := inner_tree H false w inner (w.batchBegin 0) _ hb1 rfl hg
  rw [stepWF_fail_snd]
  generalize (innerW H (w.batchBegin 0) inner).2 = w1 at i1 hfail ⊢
  obtain ⟨hbase0, hfa0, htries0, hcounts0, b, hb, hbo, hcan, hcomp, hpv, hnp⟩ := i1
  have hb' : ({ w1 with failAfter := some n } : World).batch = some b := hb
  have heq := World.batchEnd_failed_eq _ b hb' hfail
  have hpr : (w1.tries[b.outer]!).prune = false := by rw [hbo, htries0]; exact hinv.pr
  simp only [hpr] at heq
  rw [heq]
  obtain ⟨hnp1, hcons⟩ := hnp rfl
  have hnd : NoDupKeys b.cache := by
    obtain ⟨c, hc, hn⟩ := hnp1.cached
    simp only [World.batchOpSt, Option.some.injEq] at hc
    exact hc ▸ hn
  have hcons' : CacheConsistent { base := w1.base, cache := some b.cache, failAfter := some n } := by
    intro c h x x' hc hg hx
    exact hcons c h x x' hc hg hx
  have hpres : Preserved w.base (commitLoop false b.cache w1.base (some n)).2.1 := by
    have := commitLoop_preserved b.cache w1.base (some n) hnd hcons'
    rw [hbase0] at this ⊢
    exact this
  refine ⟨?_, htries0, hcounts0, hpres⟩
  refine ⟨by show w1.tries.size = 1; rw [htries0]; exact hinv.tsz,
    by show w1.counts.size = 1; rw [hcounts0]; exact hinv.csz, rfl, rfl,
    by show (w1.tries[0]!).prune = false; rw [htries0]; exact hinv.pr,
    by show Canon (w1.tries[0]!).tree; rw [htries0]; exact hinv.canon, ?_, fun hp => by cases hp⟩
  show Complete (stdHashing H) (blankRoot H) (commitLoop false b.cache w1.base (some n)).2.1 (w1.tries[0]!)
  rw [htries0]
  exact complete_mono (stdHashing H) (blankRoot H) _ _ hpres _ hinv.comp

private theorem applyOp_toOp' (t : Node) (kv : Bytes × Option Bytes) : C01.applyOp t (toOp kv) = opNode t kv := by
  obtain ⟨k, v⟩ := kv
  cases v <;> rfl

private theorem foldl_inner' (inner : List (Bytes × Option Bytes)) (t : Node) :
    inner.foldl opNode t = (inner.map toOp).foldl C01.applyOp t := by
  induction inner generalizing t with
  | nil => rfl
  | cons kv rest ih =>
    simp only [List.foldl_cons, List.map_cons]
    rw [applyOp_toOp', ih]

private theorem stepNode_flatten (s : HStep) (t : Node) :
    stepNode t s = (flattenSteps [s]).foldl C01.applyOp t := by
  cases s with
  | op k v =>
    simp only [flattenSteps, stepNode, List.foldl_cons, List.foldl_nil]
    rw [applyOp_toOp']
  | block inner raised =>
    cases raised with
    | false =>
      simp only [flattenSteps, stepNode, List.append_nil]
      rw [foldl_inner']
    | true =>
      simp only [flattenSteps, stepNode, List.foldl_nil]

/-- invariant and tree along a history with failing commits -/
private theorem run_world (steps : List HStepF) :
    ∀ (w : World), WInv H false w → GoodF H w steps →
      WInv H false (runWF H w steps).2 ∧
      ((runWF H w steps).2.tries[0]!).tree = (flattenStepsF steps).foldl C01.applyOp (w.tries[0]!).tree := by
  induction steps with
  | nil => intro w hinv _; exact ⟨hinv, rfl⟩
  | cons s rest ih =>
    intro w hinv hg
    rw [runWF_cons]
    cases s with
    | step s =>
      obtain ⟨hg1, hg2⟩ := hg
      obtain ⟨h3, _, h5⟩ := step_tree H false w hinv s [] hg1
      obtain ⟨i3, i4⟩ := ih _ h3 hg2
      refine ⟨i3, ?_⟩
      show ((runWF H (stepW H w s).2 rest).2.tries[0]!).tree = _
      have i4' : ((runWF H (stepW H w s).2 rest).2.tries[0]!).tree =
          (flattenStepsF rest).foldl C01.applyOp ((stepW H w s).2.tries[0]!).tree := i4
      rw [i4', h5, stepNode_flatten]
      simp only [flattenStepsF, List.foldl_append]
    | failBlock inner n =>
      obtain ⟨hg1, hg2, hg3⟩ := hg
      obtain ⟨f1, f2, _, _⟩ := fail_block_step H w hinv inner n hg1 hg2
      obtain ⟨i3, i4⟩ := ih _ f1 hg3
      refine ⟨i3, ?_⟩
      show ((runWF H (stepWF H w (.failBlock inner n)).2 rest).2.tries[0]!).tree = _
      rw [i4, f2]
      rfl

/-- lockstep along a history with failing commits -/
private theorem run_lock (hlen : ∀ b, (H b).length = 32) (steps : List HStepF) :
    ∀ (fw : FWorld) (w : World), Sim fw w → WInv H false w → GoodF H w steps →
      (runFF H fw steps).1 = (runWF H w steps).1 ∧ Sim (runFF H fw steps).2 (runWF H w steps).2 := by
  induction steps with
  | nil => intro fw w hs _ _; exact ⟨rfl, hs⟩
  | cons s rest ih =>
    intro fw w hs hinv hg
    rw [runWF_cons, runFF_cons]
    cases s with
    | step s =>
      obtain ⟨hg1, hg2⟩ := hg
      obtain ⟨h1, h2, h3, _⟩ := step_lockstep H hlen false fw w hs hinv s [] hg1
      obtain ⟨i1, i2⟩ := ih _ _ h2 h3 hg2
      refine ⟨?_, i2⟩
      show (stepF H fw s).1 ++ _ = (stepW H w s).1 ++ _
      rw [h1]
      exact congrArg _ i1
    | failBlock inner n =>
      obtain ⟨hg1, hg2, hg3⟩ := hg
      obtain ⟨f1, _, _, _⟩ := fail_block_step H w hinv inner n hg1 hg2
      have hs1 := sim_batchBegin fw w hs hinv.nb
      have hb1 := binv_begin H false w hinv
      obtain ⟨j1, j2, _⟩ := inner_lockstep H hlen false w inner _ _ hs1 hb1 hg1
      have j3 := sim_setFail _ _ j2 (some n)
      obtain ⟨e1, e2⟩ := sim_batchEnd _ _ j3 false
      have e3 := sim_setFail _ _ e2 none
      have hsim : Sim (stepFF H fw (.failBlock inner n)).2 (stepWF H w (.failBlock inner n)).2 := by
        rw [stepFF_fail_snd, stepWF_fail_snd]; exact e3
      have hout : (stepFF H fw (.failBlock inner n)).1 = (stepWF H w (.failBlock inner n)).1 := by
        rw [stepFF_fail_fst, stepWF_fail_fst, j1, e1]
      obtain ⟨i1, i2⟩ := ih _ _ hsim f1 hg3
      exact ⟨by rw [hout, i1], i2⟩

private theorem world_coreF (steps : List HStepF) (hgood : GoodF H (freshW H false) steps) :
    WInv H false (runWF H (freshW H false) steps).2 ∧
    ((runWF H (freshW H false) steps).2.tries[0]!).tree = run (flattenStepsF steps) :=
  run_world H steps _ (winv_fresh H false) hgood

/-- **whole histories with failing commits, tree-carrying world**: the trie holds the tree of the flattened history, the
    database is complete for it, and the between-steps invariant holds -/
theorem history_fail_commit_world (steps : List HStepF) (hgood : GoodF H (freshW H false) steps) :
    WInv H false (runWF H (freshW H false) steps).2 ∧
    ((runWF H (freshW H false) steps).2.tries[0]!).tree = run (flattenStepsF steps) ∧
    Complete (stdHashing H) (blankRoot H) (runWF H (freshW H false) steps).2.base ((runWF H (freshW H false) steps).2.tries[0]!) := by
  obtain ⟨hinv, htree⟩ := world_coreF H steps hgood
  exact ⟨hinv, htree, hinv.comp⟩

/-- **the tree-free world (what is run against the code) agrees call by call and ends in the same state** -/
theorem history_fail_commit_lockstep (hlen : ∀ b, (H b).length = 32) (steps : List HStepF)
    (hgood : GoodF H (freshW H false) steps) :
    (runFF H (FWorld.init H false) steps).1 = (runWF H (freshW H false) steps).1 ∧
    Sim (runFF H (FWorld.init H false) steps).2 (runWF H (freshW H false) steps).2 :=
  run_lock H hlen steps _ _ (sim_fresh H false) (winv_fresh H false) hgood

/-- **"remains fully usable and correct afterwards"**: after any history with failing commits `get` of the tree-free world
    returns the map model's value of the calls that count, and never raises; its root is the root of that tree -/
theorem history_fail_commit_get (hlen : ∀ b, (H b).length = 32) (steps : List HStepF)
    (hgood : GoodF H (freshW H false) steps)
    (hbk : Dict.get? (runFF H (FWorld.init H false) steps).2.base (blankRoot H) = none)
    (hsm : ∀ h b, Dict.get? (runFF H (FWorld.init H false) steps).2.base h = some b → b.length < 2 ^ 64) (key : Bytes) :
    (runFF H (FWorld.init H false) steps).2.get H false key = .ok (spec (flattenStepsF steps) key) ∧
    (runFF H (FWorld.init H false) steps).2.outer.root = rootHash H (run (flattenStepsF steps)) := by
  obtain ⟨hinv, htree⟩ := world_coreF H steps hgood
  obtain ⟨hbase, _, _, _, hout, _, _⟩ := (history_fail_commit_lockstep H hlen steps hgood).2
  refine ⟨?_, ?_⟩
  · rw [hbase] at hbk hsm
    have hcanon : Canon ((runWF H (freshW H false) steps).2.tries[0]!).tree := hinv.canon
    have hg := PyTrie.HexRaw.getD_of_complete H hlen _ hcanon _ hinv.comp hbk hsm
      (runWF H (freshW H false) steps).2.base (fun _ => rfl) (nibs key)
    show freeGet H (runFF H (FWorld.init H false) steps).2.outer key (runFF H (FWorld.init H false) steps).2.opSt = _
    unfold freeGet
    have hdb : storeDb (runFF H (FWorld.init H false) steps).2.opSt.store = (runWF H (freshW H false) steps).2.base := hbase
    rw [hdb, hout]
    have e0 : (toFree ((runWF H (freshW H false) steps).2.tries[0]!)).root =
        ((runWF H (freshW H false) steps).2.tries[0]!).root := rfl
    rw [e0, hg, htree, C01.run_get]
  · rw [hout, ← htree]
    exact complete_root_eq H _ _ hinv.comp

end
end PyTrie.Props.Free
