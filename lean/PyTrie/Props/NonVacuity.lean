import PyTrie.Props.C03
import PyTrie.Props.C01World
import PyTrie.Props.C04
import PyTrie.Props.C06
import PyTrie.Props.C05Batch
import PyTrie.Props.RawLevel
import PyTrie.Props.C13
import PyTrie.Props.C15
import PyTrie.Props.C09
import PyTrie.Props.C11
/-! # Non-vacuity: concrete witnesses for the run-level hypotheses of the property theorems

Every property theorem is universally quantified over the hash function, so the witnesses below use a
*toy* hash (`toyH`: pad with zeros / truncate to 32 bytes) under which the no-collision predicates and
invariants can be decided by evaluation on small concrete tries. Nothing here is about Keccak; the point
is only that the hypotheses of the theorems are jointly satisfiable by non-trivial states. -/
namespace PyTrie.Props.NonVacuity
open PyTrie PyTrie.Hex PyTrie.Hex.Node PyTrie.HexD

/-- the toy hash: the first 32 bytes, zero-padded -/
def toyH (b : Bytes) : Bytes := (b ++ List.replicate 32 0).take 32

theorem toyH_len (b : Bytes) : (toyH b).length = 32 := by simp [toyH]

/-- a 33-byte value: a leaf holding it encodes to 36 bytes and is therefore stored under its hash -/
def longV : Bytes := List.replicate 33 7

def k1 : Bytes := [0x12]
def k2 : Bytes := [0x13]

/-! ## 1. C03 — Merkle proofs -/
section C03
open PyTrie.Props.C03

/-- two keys sharing a nibble: an extension over a branch with one hashed and one embedded leaf -/
def t1 : Node := Hex.set (Hex.set blank (nibs k1) longV) (nibs k2) [5]

def t1br : Node := branch (upd (upd emptyCh 2 (leaf [] longV)) 3 (leaf [] [5])) []
def t1' : Node := ext [1] t1br

theorem t1_eq : t1 = t1' := by
  simp [t1, t1', t1br, Hex.set, nibs, k1, k2, cpl, wrap]

theorem t1_canon : Canon t1 := by
  rw [t1_eq]
  simp only [t1', t1br, canon_ext, canon_branch, isBranch]
  refine ⟨by simp, trivial, fun i => ?_, by decide⟩
  simp only [upd, emptyCh]
  repeat' split
  all_goals simp [longV]

theorem t1_proof : getProof t1 (nibs k1) = [t1', t1br, leaf [] longV] := by
  rw [t1_eq]; simp [t1', t1br, getProof, nibs, k1, upd]

/-- all three nodes on the path are hashed (the leaf has 36 encoded bytes, the branch 52, the root 35) -/
example : (getProof t1 (nibs k1)).map (isHashed toyH) = [true, true, true] := by
  rw [t1_proof]; decide

theorem t1_nc : NoCollision toyH t1 (nibs k1) ((getProof t1 (nibs k1)).map (toItem toyH)) := by
  unfold NoCollision
  rw [t1_proof]
  intro n hn _
  simp only [List.mem_cons, List.not_mem_nil, or_false] at hn
  rcases hn with rfl | rfl | rfl <;> decide

theorem t1_dec : DecOkOn toyH t1 (nibs k1) := by
  apply decOkOn_of_small
  rw [t1_proof]
  intro n hn
  simp only [List.mem_cons, List.not_mem_nil, or_false] at hn
  rcases hn with rfl | rfl | rfl <;> decide

/-- `proof_complete` applies to the witness -/
theorem c03_complete :
    getFromProof toyH (rootHash toyH t1) k1 ((getProof t1 (nibs k1)).map (toItem toyH)) = .value longV := by
  rw [proof_complete toyH toyH_len t1 t1_canon k1 t1_dec t1_nc]
  rfl

/-- a forged node list: the honest nodes reordered, the leaf replaced by one holding another long
    value, a duplicate of the root and a junk string -/
def forged : List Item :=
  [toItem toyH (leaf [] (List.replicate 33 8)), toItem toyH t1br, .str [1, 2, 3], toItem toyH t1', toItem toyH t1']

theorem forged_nc : NoCollision toyH t1 (nibs k1) forged := by
  unfold NoCollision
  rw [t1_proof]
  intro n hn _
  simp only [List.mem_cons, List.not_mem_nil, or_false] at hn
  rcases hn with rfl | rfl | rfl <;> decide

/-- `proof_sound` applies to the forged list … -/
theorem c03_sound :
    getFromProof toyH (rootHash toyH t1) k1 forged = .value (get t1 (nibs k1)) ∨
    getFromProof toyH (rootHash toyH t1) k1 forged = .badProof :=
  proof_sound toyH toyH_len t1 t1_canon k1 t1_dec forged forged_nc

/-- … and since the hashed leaf is withheld, `proof_withheld` says which of the two it is -/
theorem c03_withheld : getFromProof toyH (rootHash toyH t1) k1 forged = .badProof := by
  refine proof_withheld toyH toyH_len t1 t1_canon k1 t1_dec forged forged_nc (leaf [] longV) ?_ (Or.inr (by decide)) ?_
  · rw [t1_proof]; simp
  · decide

end C03


/-! ## Boolean checkers for the run-level predicates -/
section Checkers
open PyTrie.HexW PyTrie.HexRaw
open PyTrie.Props.C01 (Op run spec applyOp)

/-- structural equality test on trees (children compared at all 16 indices) -/
def sameB : Node → Node → Bool
  | blank, blank => true
  | leaf p v, leaf q w => p == q && v == w
  | ext p c, ext q d => p == q && sameB c d
  | branch ch v, branch dh w => (List.finRange 16).all (fun i => sameB (ch i) (dh i)) && v == w
  | _, _ => false

theorem sameB_eq (a b : Node) (h : sameB a b = true) : a = b := by
  induction a generalizing b with
  | blank => cases b <;> simp_all [sameB]
  | leaf p v => cases b <;> simp_all [sameB]
  | ext p c ih =>
    cases b <;> simp_all [sameB]
    exact ih _ h.2
  | branch ch v ih =>
    cases b with
    | branch dh w =>
      simp only [sameB, Bool.and_eq_true, List.all_eq_true, List.mem_finRange, forall_const, beq_iff_eq] at h
      obtain ⟨h1, rfl⟩ := h
      have : ch = dh := funext fun i => ih i _ (h1 i)
      rw [this]
    | _ => simp [sameB] at h

variable (Hs : Hashing)

def refSoundB : Node → Path → Bool
  | ext p c, k => !(decide (p <+: k)) || (refSoundB c (k.drop p.length) &&
      (!(Hs.refEq (deleteE Hs c (k.drop p.length)).1 c) || sameB (deleteE Hs c (k.drop p.length)).1 c))
  | branch ch _, n :: k => refSoundB (ch n) k &&
      (!(Hs.refEq (deleteE Hs (ch n) k).1 (ch n)) || sameB (deleteE Hs (ch n) k).1 (ch n))
  | _, _ => true

theorem refSound_of_B (t : Node) (k : Path) (h : refSoundB Hs t k = true) : RefSound Hs t k := by
  induction t generalizing k with
  | blank => simp [RefSound]
  | leaf p v => simp [RefSound]
  | ext p c ih =>
    simp only [RefSound]
    intro hp
    simp only [refSoundB, hp, decide_true, Bool.not_true, Bool.false_or, Bool.and_eq_true, Bool.or_eq_true,
      Bool.not_eq_true'] at h
    refine ⟨ih _ h.1, fun he => ?_⟩
    rcases h.2 with h2 | h2
    · rw [he] at h2; cases h2
    · exact sameB_eq _ _ h2
  | branch ch v ih =>
    cases k with
    | nil => simp [RefSound]
    | cons n k =>
      simp only [RefSound]
      simp only [refSoundB, Bool.and_eq_true, Bool.or_eq_true, Bool.not_eq_true'] at h
      refine ⟨ih n _ h.1, fun he => ?_⟩
      rcases h.2 with h2 | h2
      · rw [he] at h2; cases h2
      · exact sameB_eq _ _ h2

def noClobberB (d : Dict Bytes) (ws : List (Hash × Bytes)) : Bool :=
  ws.all (fun e => (match Dict.get? d e.1 with | some b' => b' == e.2 | none => true) &&
    ws.all (fun e' => !(e'.1 == e.1) || e.2 == e'.2))

theorem noClobber_of_B (d : Dict Bytes) (ws : List (Hash × Bytes)) (h : noClobberB d ws = true) : NoClobber d ws := by
  simp only [noClobberB, List.all_eq_true, Bool.and_eq_true, Bool.or_eq_true, Bool.not_eq_true', beq_iff_eq,
    beq_eq_false_iff_ne, ne_eq] at h
  constructor
  · intro hh b b' hm hg
    have := (h _ hm).1
    simpa [hg] using this
  · intro hh b b' hm hm'
    rcases (h _ hm).2 _ hm' with h1 | h1
    · exact absurd rfl h1
    · exact h1


variable (brh : Hash)

/-- one step of the executor; on an exception the trie is left as it was -/
def stepW (st : TrieSt × OpSt) (o : Op) : TrieSt × OpSt :=
  let r := opSetDel Hs brh st.1 (opKey o) (opVal o) st.2
  (match r.2 with | .ok T => T | .error _ => st.1, r.1)

/-- the run-level hypotheses of one step of `ReachOps` / `Reach`, as a test -/
def stepOkB (prune : Bool) (st : TrieSt × OpSt) (o : Op) : Bool :=
  refSoundB Hs st.1.tree (nibs (opKey o)) &&
  (isBlank (opTree Hs st.1 (opKey o) (opVal o)).1 ||
    !(Hs.hashOf (opTree Hs st.1 (opKey o) (opVal o)).1 == brh)) &&
  (prune || noClobberB st.2.store.base (opWrites Hs st.1 (opKey o) (opVal o))) &&
  (match (opSetDel Hs brh st.1 (opKey o) (opVal o) st.2).2 with | .ok _ => true | .error _ => false)

def initW (prune : Bool) : TrieSt × OpSt :=
  ({ tree := .blank, root := brh, prune := prune },
   { store := { base := [], cache := none, failAfter := none }, counts := [], pending := [] })

def runW (prune : Bool) (ops : List Op) : TrieSt × OpSt := ops.foldl (stepW Hs brh) (initW brh prune)

/-- all steps of a history pass the test (checked from the first operation on) -/
def allOkB (prune : Bool) : TrieSt × OpSt → List Op → Bool
  | _, [] => true
  | st, o :: r => stepOkB Hs brh prune st o && allOkB prune (stepW Hs brh st o) r

theorem stepOk_spec (prune : Bool) (st : TrieSt × OpSt) (o : Op) (h : stepOkB Hs brh prune st o = true) :
    RefSound Hs st.1.tree (nibs (opKey o)) ∧
    (isBlank (opTree Hs st.1 (opKey o) (opVal o)).1 = false → Hs.hashOf (opTree Hs st.1 (opKey o) (opVal o)).1 ≠ brh) ∧
    (prune = false → NoClobber st.2.store.base (opWrites Hs st.1 (opKey o) (opVal o))) ∧
    (opSetDel Hs brh st.1 (opKey o) (opVal o) st.2).2 = .ok (stepW Hs brh st o).1 := by
  simp only [stepOkB, Bool.and_eq_true, Bool.or_eq_true, Bool.not_eq_true', beq_eq_false_iff_ne] at h
  obtain ⟨⟨⟨h1, h2⟩, h3⟩, h4⟩ := h
  refine ⟨refSound_of_B Hs _ _ h1, fun hb => ?_, fun hp => ?_, ?_⟩
  · rcases h2 with h2 | h2
    · rw [hb] at h2; cases h2
    · exact h2
  · rcases h3 with h3 | h3
    · rw [hp] at h3; cases h3
    · exact noClobber_of_B _ _ h3
  · simp only [stepW]
    split at h4
    · next T hT => simp [hT]
    · cases h4

theorem reachOps_of_allOk (prune : Bool) (pre : List Op) (st : TrieSt × OpSt) (ops : List Op)
    (hr : ReachOps Hs brh prune pre st.1 st.2) (h : allOkB Hs brh prune st ops = true) :
    ReachOps Hs brh prune (pre ++ ops) (ops.foldl (stepW Hs brh) st).1 (ops.foldl (stepW Hs brh) st).2 := by
  induction ops generalizing pre st with
  | nil => simpa using hr
  | cons o r ih =>
    simp only [allOkB, Bool.and_eq_true] at h
    obtain ⟨h1, h2, h3, h4⟩ := stepOk_spec Hs brh prune st o h.1
    have := ih (pre ++ [o]) (stepW Hs brh st o) (ReachOps.step pre st.1 st.2 o _ hr h1 h2 h3 h4) h.2
    simpa using this

/-- **a history all of whose steps pass the test is a `ReachOps` history** -/
theorem reachOps_of_check (prune : Bool) (ops : List Op) (h : allOkB Hs brh prune (initW brh prune) ops = true) :
    ReachOps Hs brh prune ops (runW Hs brh prune ops).1 (runW Hs brh prune ops).2 := by
  simpa [runW] using reachOps_of_allOk Hs brh prune [] (initW brh prune) ops ReachOps.init h

theorem reach_of_allOk (st : TrieSt × OpSt) (ops : List Op)
    (hr : C06.Reach Hs brh st.1 st.2) (h : allOkB Hs brh true st ops = true) :
    C06.Reach Hs brh (ops.foldl (stepW Hs brh) st).1 (ops.foldl (stepW Hs brh) st).2 := by
  induction ops generalizing st with
  | nil => simpa using hr
  | cons o r ih =>
    simp only [allOkB, Bool.and_eq_true] at h
    obtain ⟨h1, h2, _, h4⟩ := stepOk_spec Hs brh true st o h.1
    exact ih (stepW Hs brh st o) (C06.Reach.step st.1 st.2 _ _ _ hr h1 h2 h4) h.2

theorem reach_of_check (ops : List Op) (h : allOkB Hs brh true (initW brh true) ops = true) :
    C06.Reach Hs brh (runW Hs brh true ops).1 (runW Hs brh true ops).2 :=
  reach_of_allOk Hs brh (initW brh true) ops C06.Reach.init h

end Checkers

/-! ## 2. C04 / C01World — histories through the executor -/
section C04
open PyTrie.HexW PyTrie.HexRaw
open PyTrie.Props.C01 (Op run spec applyOp)

def toyHs : Hashing := stdHashing toyH

/-- two sets under a shared first nibble (one hashed leaf, one embedded), then the delete of the first -/
def hist : List Op := [.set k1 longV, .set k2 [5], .delete k1]

theorem hist_ok_np : allOkB toyHs (blankRoot toyH) false (initW (blankRoot toyH) false) hist = true := by
  decide +kernel

theorem hist_ok_p : allOkB toyHs (blankRoot toyH) true (initW (blankRoot toyH) true) hist = true := by
  decide +kernel

/-- `ReachOps` for a non-pruning trie … -/
theorem hist_reach_np : ReachOps toyHs (blankRoot toyH) false hist
    (runW toyHs (blankRoot toyH) false hist).1 (runW toyHs (blankRoot toyH) false hist).2 :=
  reachOps_of_check toyHs _ false hist hist_ok_np

/-- … and for a pruning one -/
theorem hist_reach_p : ReachOps toyHs (blankRoot toyH) true hist
    (runW toyHs (blankRoot toyH) true hist).1 (runW toyHs (blankRoot toyH) true hist).2 :=
  reachOps_of_check toyHs _ true hist hist_ok_p

/-- the non-pruning database kept all five nodes ever written, the pruning one only the final root -/
example : (runW toyHs (blankRoot toyH) false hist).2.store.base.length = 5 ∧
    (runW toyHs (blankRoot toyH) true hist).2.store.base.length = 1 := by decide +kernel

/-- `world_get` on the witnesses -/
theorem c01_world_get_np (key : Bytes) :
    opGet toyHs (blankRoot toyH) (runW toyHs (blankRoot toyH) false hist).1 key
      (runW toyHs (blankRoot toyH) false hist).2 = .ok (spec hist key) :=
  C01.world_get toyHs _ false hist _ _ hist_reach_np key

theorem c01_world_get_p (key : Bytes) :
    opGet toyHs (blankRoot toyH) (runW toyHs (blankRoot toyH) true hist).1 key
      (runW toyHs (blankRoot toyH) true hist).2 = .ok (spec hist key) :=
  C01.world_get toyHs _ true hist _ _ hist_reach_p key

example : spec hist k2 = [5] ∧ spec hist k1 = [] := by decide

/-- C04: the database reached by the non-pruning history is `Complete`, the next write is `NoClobber`,
    and `op_keeps_complete` applies to it -/
theorem c04_complete : Complete toyHs (blankRoot toyH) (runW toyHs (blankRoot toyH) false hist).2.store.base
    (runW toyHs (blankRoot toyH) false hist).1 := by
  have := (reachOps_inv toyHs _ false hist _ _ hist_reach_np).2.2.2.2
  simpa using this

theorem c04_next_ok : stepOkB toyHs (blankRoot toyH) false (runW toyHs (blankRoot toyH) false hist) (.set k1 [9]) = true := by
  decide +kernel

theorem c04_op_keeps_complete :
    let T := (runW toyHs (blankRoot toyH) false hist).1
    let s := (runW toyHs (blankRoot toyH) false hist).2
    ∃ T', (opSetDel toyHs (blankRoot toyH) T k1 (some [9]) s).2 = .ok T' ∧
      T'.tree = (opTree toyHs T k1 (some [9])).1 ∧ T'.prune = false ∧
      Preserved s.store.base (opSetDel toyHs (blankRoot toyH) T k1 (some [9]) s).1.store.base ∧
      Complete toyHs (blankRoot toyH) (opSetDel toyHs (blankRoot toyH) T k1 (some [9]) s).1.store.base T' := by
  intro T s
  obtain ⟨h1, h2, h3, _⟩ := stepOk_spec toyHs (blankRoot toyH) false _ _ c04_next_ok
  obtain ⟨_, hp⟩ := C01.world_tree toyHs _ false hist _ _ hist_reach_np
  obtain ⟨ht, _, hcache, hfa, _⟩ := reachOps_inv toyHs _ false hist _ _ hist_reach_np
  refine C04.op_keeps_complete toyHs (blankRoot toyH) T hp ?_ k1 (some [9]) s hcache hfa c04_complete h1 (h3 rfl) h2
  rw [ht]; exact C01.canon_run hist

end C04

/-! ## 3. C06 — exact pruning -/
section C06
open PyTrie.HexW

theorem hist_reach : C06.Reach toyHs (blankRoot toyH)
    (runW toyHs (blankRoot toyH) true hist).1 (runW toyHs (blankRoot toyH) true hist).2 :=
  reach_of_check toyHs _ hist hist_ok_p

theorem c06_pruneInv : PruneInv toyHs (blankRoot toyH)
    (runW toyHs (blankRoot toyH) true hist).1 (runW toyHs (blankRoot toyH) true hist).2 :=
  (C06.reach_invariant toyHs _ _ _ hist_reach).2.2

/-- also in the middle of the history, where the database holds a hashed leaf, a hashed branch and the root -/
theorem c06_pruneInv_mid : PruneInv toyHs (blankRoot toyH)
    (runW toyHs (blankRoot toyH) true (hist.take 2)).1 (runW toyHs (blankRoot toyH) true (hist.take 2)).2 :=
  (C06.reach_invariant toyHs _ _ _ (reach_of_check toyHs _ (hist.take 2) (by decide +kernel))).2.2

example : (runW toyHs (blankRoot toyH) true (hist.take 2)).2.store.base.length = 3 := by decide +kernel

end C06


/-! ## 4. C05Batch — `squash_changes` -/
section C05
open PyTrie.HexW PyTrie.HexRaw
open PyTrie.Props.C01 (Op)

/-- the invariant over the view only looks at base, cache, counts and pending of the state -/
theorem pruneInvV_congr (Hs : Hashing) (brh : Hash) (T : TrieSt) (s s' : OpSt) (h : PruneInvV Hs brh T s)
    (h1 : s'.store.base = s.store.base) (h2 : s'.store.cache = s.store.cache) (h3 : s'.counts = s.counts)
    (h4 : s'.pending = []) : PruneInvV Hs brh T s' := by
  refine ⟨h.prune, h.root, fun x => by rw [h3]; exact h.counts x, fun x => ?_, h4, ?_⟩
  · have : s'.store.view x = s.store.view x := by unfold Store.view; rw [h1, h2]
    rw [this]; exact h.keys x
  · intro c hc; rw [h2] at hc; exact h.cacheNoDup c hc

abbrev brh : Hash := blankRoot toyH

/-- the pruning trie after the two sets: a hashed leaf, a hashed branch and the root in the database -/
def Tm : TrieSt := (runW toyHs brh true (hist.take 2)).1
def sm : OpSt := (runW toyHs brh true (hist.take 2)).2

def w0 : World := { base := sm.store.base, tries := #[Tm], counts := #[sm.counts] }

theorem w0_inv : PruneInv toyHs brh (w0.tries[0]!) (w0.opSt 0) :=
  have h := c06_pruneInv_mid
  ⟨h.prune, rfl, h.root, h.counts, h.keys, rfl⟩

/-- the batch opened by `squash_changes` -/
def b0 : Batch := { outer := 0, cache := [], trie := { Tm with prune := true }, counts := sm.counts }
def wB : World := { w0 with batch := some b0 }

theorem wB_eq : w0.batchBegin 0 = wB := by
  have : Tm.prune = true := c06_pruneInv_mid.prune
  simp [World.batchBegin, wB, b0, w0, this]

/-- **a world with an open batch satisfying `PruneInvV`** (by `batch_begin_invariant`) -/
theorem c05_begin : wB.batch = some b0 ∧ PruneInvV toyHs brh b0.trie (wB.batchOpSt b0) := by
  obtain ⟨b, hb, _, _, hinv⟩ := C05.batch_begin_invariant toyHs brh w0 0 (by decide) rfl w0_inv
  rw [wB_eq] at hb hinv
  have : b = b0 := by
    have : some b0 = some b := hb
    injection this with this; exact this.symm
  subst this
  exact ⟨rfl, hinv⟩

/-- inside the block: delete the hashed leaf's key (buffered deletes and a buffered write in the cache) -/
def T1 : TrieSt := (stepW toyHs brh (b0.trie, wB.batchOpSt b0) (.delete k1)).1
def s1 : OpSt := (stepW toyHs brh (b0.trie, wB.batchOpSt b0) (.delete k1)).2

theorem batch_step_ok : stepOkB toyHs brh true (b0.trie, wB.batchOpSt b0) (.delete k1) = true := by decide +kernel

theorem Tm_canon : Canon Tm.tree := (C06.reach_invariant toyHs _ _ _ (reach_of_check toyHs _ (hist.take 2) (by decide +kernel))).1

/-- `batch_op_invariant` applies: the state inside the block still satisfies `PruneInvV` -/
theorem c05_op : PruneInvV toyHs brh T1 s1 := by
  obtain ⟨h1, h2, _, h4⟩ := stepOk_spec toyHs brh true _ _ batch_step_ok
  obtain ⟨T', hT, _, hinv, _⟩ := C05.batch_op_invariant toyHs brh b0.trie Tm_canon k1 none (wB.batchOpSt b0) rfl
    c05_begin.2 h1 h2
  have : T' = T1 := by
    have h := hT.symm.trans h4
    injection h
  rw [this] at hinv
  exact hinv

/-- the cache now holds four entries: the new root is buffered, the old root, branch and leaf are marked deleted -/
example : s1.store.cache.map (·.map (·.2.isSome)) = some [true, false, false, false] := by decide +kernel

/-- the world as `World.setDel … .batch` leaves it -/
def b1 : Batch := { b0 with cache := s1.store.cache.getD [], counts := s1.counts, trie := T1 }
def w1 : World := { wB with batch := some b1 }

theorem c05_world_inv : PruneInvV toyHs brh b1.trie (w1.batchOpSt b1) :=
  pruneInvV_congr toyHs brh T1 s1 _ c05_op (by decide +kernel) (by decide +kernel) rfl rfl

/-- **`batch_commit_exact` applies to this world** -/
theorem c05_commit :
    (w1.batchEnd false).1 = .ok () ∧ (w1.batchEnd false).2.batch = none ∧
    ((w1.batchEnd false).2.tries[0]!).tree = T1.tree ∧
    PruneInv toyHs brh ((w1.batchEnd false).2.tries[0]!) ((w1.batchEnd false).2.opSt 0) := by
  obtain ⟨h1, h2, h3, _, h5⟩ := C05.batch_commit_exact toyHs brh w1 b1 rfl (by decide) (by decide)
    c06_pruneInv_mid.prune rfl c05_world_inv
  exact ⟨h1, h2, h3, h5⟩

end C05
section C05NP
open PyTrie.HexW PyTrie.HexRaw
open PyTrie.Props.C01 (Op)

theorem sumCh_pos {f : Nib → Nat} (h : 0 < sumCh f) : ∃ i, 0 < f i :=
  Classical.byContradiction fun hn => by
    have : f = fun _ => 0 := funext fun i => by
      have : ¬ 0 < f i := fun hi => hn ⟨i, hi⟩
      omega
    rw [this, sumCh_zero] at h
    exact absurd h (by decide)

variable (Hs : Hashing)

theorem ref_occ_contains (d : Dict Bytes) (t : Node) (hr : Ref Hs d t) (h : Hash) (hp : 0 < occ Hs t h) :
    Dict.contains d h = true := by
  have hself : ∀ n, Ref Hs d n → 0 < self Hs n h → Dict.contains d h = true := by
    intro n hn hs
    unfold self at hs
    split at hs
    · next hc => rw [← hc.2]; exact contains_of_get? (hn.1 hc.1)
    · cases hs
  induction t with
  | blank => simp [occ] at hp
  | leaf p v => exact hself _ hr (by simpa [occ] using hp)
  | ext p c ih =>
    simp only [occ] at hp
    by_cases hs : 0 < self Hs (ext p c) h
    · exact hself _ hr hs
    · exact ih hr.2 (by omega)
  | branch ch v ih =>
    simp only [occ] at hp
    by_cases hs : 0 < self Hs (branch ch v) h
    · exact hself _ hr hs
    · obtain ⟨i, hi⟩ := sumCh_pos (f := fun i => occ Hs (ch i) h) (by omega)
      exact ih i (hr.2 i) hi

/-- on a complete database every referenced hash is a key -/
theorem complete_keys (brh : Hash) (d : Dict Bytes) (T : TrieSt) (hc : Complete Hs brh d T) (h : Hash)
    (hp : 0 < occRoot Hs T.tree h) : Dict.contains d h = true := by
  unfold occRoot at hp
  by_cases hpp : 0 < occProper Hs T.tree h
  · have hsb := hc.2
    cases ht : T.tree with
    | blank => rw [ht] at hpp; simp [occProper] at hpp
    | leaf p v => rw [ht] at hpp; simp [occProper] at hpp
    | ext p c =>
      rw [ht] at hpp hsb
      exact ref_occ_contains Hs d c hsb h hpp
    | branch ch v =>
      rw [ht] at hpp hsb
      obtain ⟨i, hi⟩ := sumCh_pos (f := fun i => occ Hs (ch i) h) hpp
      exact ref_occ_contains Hs d (ch i) (hsb i) h hi
  · split at hp
    · next hb =>
      have h1 := hc.1
      simp only [hb.1, Bool.false_eq_true, ↓reduceIte] at h1
      rw [← hb.2, ← h1.1]
      exact contains_of_get? h1.2.2
    · omega

/-- the non-pruning trie after the whole history: five nodes in the database, only the root is live -/
def Tn : TrieSt := (runW toyHs brh false hist).1
def base0 : Dict Bytes := (runW toyHs brh false hist).2.store.base

example : base0.length = 5 := by decide +kernel

def Tb : TrieSt := { Tn with prune := true }
def sb : OpSt := { store := { base := base0, cache := some [], failAfter := none }, counts := [], pending := [] }

/-- **`BatchInvNP` on entering the block** (by `np_batch_begin`, from completeness of the database) -/
theorem c05_np_begin : BatchInvNP toyHs brh base0 Tb sb := by
  refine C05.np_batch_begin toyHs brh base0 Tn ?_ (complete_keys toyHs brh base0 Tn c04_complete) none
  have h := c04_complete.1
  split at h
  · next hb => simpa [Tn, hb] using h
  · next hb => simp only [Tn, hb]; exact ⟨h.1, h.2.1⟩

/-- inside the block: write the long value again (its leaf and branch are already keys of `base0`) and one more key -/
def npOps : List Op := [.set k1 longV, .set [0x12, 0x34] [6]]

theorem np_ops_ok : allOkB toyHs brh true (Tb, sb) npOps = true := by decide +kernel

theorem Tn_canon : Canon Tn.tree := by
  rw [show Tn.tree = C01.run hist from (C01.world_tree toyHs _ false hist _ _ hist_reach_np).1]
  exact C01.canon_run hist

/-- `np_batch_op` applies along the block -/
theorem batchInvNP_of_allOk (Hs : Hashing) (brh : Hash) (b0 : Dict Bytes) (st : TrieSt × OpSt) (ops : List Op)
    (hc : Canon st.1.tree) (hinv : BatchInvNP Hs brh b0 st.1 st.2) (h : allOkB Hs brh true st ops = true) :
    Canon (ops.foldl (stepW Hs brh) st).1.tree ∧
    BatchInvNP Hs brh b0 (ops.foldl (stepW Hs brh) st).1 (ops.foldl (stepW Hs brh) st).2 := by
  induction ops generalizing st with
  | nil => exact ⟨hc, hinv⟩
  | cons o r ih =>
    simp only [allOkB, Bool.and_eq_true] at h
    obtain ⟨h1, h2, _, h4⟩ := stepOk_spec Hs brh true st o h.1
    obtain ⟨T', hT, htree, hinv'⟩ := C05.np_batch_op Hs brh b0 st.1 hc (opKey o) (opVal o) st.2 hinv h1 h2
    have e : T' = (stepW Hs brh st o).1 := by
      have := hT.symm.trans h4
      injection this
    rw [e] at hinv' htree
    refine ih (stepW Hs brh st o) ?_ hinv' h.2
    rw [htree, opTree_fst_p Hs st.1 hc (opKey o) (opVal o) h1]
    cases hv : opVal o with
    | none => exact canon_delete _ _ hc
    | some v =>
      simp only
      split
      · exact canon_delete _ _ hc
      · next hne => exact canon_set _ _ _ hne hc

/-- **`BatchInvNP` at the end of the block**, with a non-empty cache … -/
theorem c05_np_inv : BatchInvNP toyHs brh base0 (npOps.foldl (stepW toyHs brh) (Tb, sb)).1
    (npOps.foldl (stepW toyHs brh) (Tb, sb)).2 :=
  (batchInvNP_of_allOk toyHs brh base0 (Tb, sb) npOps Tn_canon c05_np_begin np_ops_ok).2

def npCache : Dict (Option Bytes) := (npOps.foldl (stepW toyHs brh) (Tb, sb)).2.store.cache.getD []

example : npCache.map (·.2.isSome) = [false, false, false, false, true, true, true] := by decide +kernel

/-- … and `np_batch_commit` applies to it -/
theorem c05_np_commit :
    let db' := (commitLoop false npCache base0 none).2.1
    let T := (npOps.foldl (stepW toyHs brh) (Tb, sb)).1
    (∀ h, Dict.contains base0 h = true → Dict.contains db' h = true) ∧
    (∀ h, 0 < occRoot toyHs T.tree h → Dict.contains db' h = true) ∧
    (∀ h, Dict.contains db' h = true → Dict.contains base0 h = false → 0 < occRoot toyHs T.tree h) :=
  C05.np_batch_commit toyHs brh base0 _ _ c05_np_inv npCache (by decide +kernel)

end C05NP


/-! ## 5. Binary trie: C12 / C13 / raw level -/

/-- a toy hash that looks at every input byte: a polynomial in the bytes (base 257, seeded with the length)
    modulo `2^256 - 189`, written out as 32 little-endian bytes. `toyH` would identify `branch l r` with
    `branch l r'` and `H (l ++ r)` with `H (l ++ r')`; this one separates all nodes of the examples below. -/
def mixH (b : Bytes) : Bytes :=
  (List.range 32).map fun i =>
    UInt8.ofNat (b.foldl (fun a x => (a * 257 + x.toNat + 1) % (2 ^ 256 - 189)) b.length / 256 ^ i % 256)

theorem mixH_len (b : Bytes) : (mixH b).length = 32 := by simp [mixH]

section Bin
open PyTrie.Bin PyTrie.Bin.BNode PyTrie.BinRaw

/-- three keys `0010`, `0011`, `1`: a kv node over a branch, a branch at the root -/
def bt : BNode := branch (kv [false, true] (branch (leaf [0xaa]) (leaf [0xbb, 0xcc]))) (leaf [0xdd])

theorem bt_canon : BCanon bt := by
  simp [bt, BCanon]

example : bget bt [false, false, true, false] = some [0xaa] ∧ bget bt [false, false, true, true] = some [0xbb, 0xcc] ∧
    bget bt [true] = some [0xdd] := by decide

/-- it is the trie reached by the obvious history (so `C13.reachable_canonical` gives `BCanon` as well) -/
theorem bt_run : C12.run [.set [false, false, true, false] [0xaa], .set [false, false, true, true] [0xbb, 0xcc],
    .set [true] [0xdd]] = some bt := by decide

theorem sub_iff (t x : BNode) : Sub x t ↔ x ∈ trieNodes t := (mem_trieNodes_iff t x).symm

/-- the database holding exactly the nodes of `bt` -/
def btDb : Bin.Db := applySaves mixH [] (trieNodes bt).reverse

theorem bt_allStored : AllStored mixH btDb bt := by
  intro n hn
  rw [sub_iff] at hn
  revert n
  decide +kernel

/-- a `set` that splits the kv node: new key `000` -/
def bk : Bits := [false, false, false]

example : (bsetS bt bk [0xee] false).2.length = 4 := by decide

theorem bt_ncOp : NoCollisionOp mixH bt (bsetS bt bk [0xee] false).2 := by
  refine ⟨?_, ?_, ?_⟩
  · decide +kernel
  · intro s hs n hn
    rw [sub_iff] at hn
    revert s n
    decide +kernel
  · decide +kernel

/-- `bin_set_refines` applies -/
theorem bin_set_witness :
    BinRaw.rawSet mixH (mixH []) 10 { db := btDb } (hashNode mixH bt) bk [0xee] false =
      match (bsetS bt bk [0xee] false).1 with
      | .ok t' => .ok (rootOf mixH t', { db := applySaves mixH btDb (bsetS bt bk [0xee] false).2 })
      | .error _ => .error .override :=
  Raw.bin_set_refines mixH mixH_len bt bt_canon bk [0xee] false { db := btDb } bt_allStored bt_ncOp 10 (by decide)

/-- the operation succeeds at tree level, so the raw one returns a new root -/
example : ∃ t', (bsetS bt bk [0xee] false).1 = .ok (some t') ∧ bget t' bk = some [0xee] := ⟨_, rfl, by decide⟩

/-- a second one going right at both branches (where `toyH` would collide) -/
theorem bt_ncOp2 : NoCollisionOp mixH bt (bsetS bt [false, false, true, true] [0x11] false).2 := by
  refine ⟨?_, ?_, ?_⟩
  · decide +kernel
  · intro s hs n hn
    rw [sub_iff] at hn
    revert s n
    decide +kernel
  · decide +kernel

/-- C13: the branch for key `0011` (four nodes) -/
def bpath : List BNode := [bt, kv [false, true] (branch (leaf [0xaa]) (leaf [0xbb, 0xcc])),
  branch (leaf [0xaa]) (leaf [0xbb, 0xcc]), leaf [0xbb, 0xcc]]

theorem bpath_ok : getBranch bt [false, false, true, true] = .ok bpath := rfl

theorem bt_nc : Bin.NoCollision mixH bt (bpath.map (encNode mixH)) := by
  intro n hn
  rw [sub_iff] at hn
  revert n
  decide +kernel

/-- `branch_valid` applies -/
theorem branch_valid_witness :
    ifBranchValid mixH (bpath.map (encNode mixH)) (hashNode mixH bt) [false, false, true, true] (some [0xbb, 0xcc]) = .valid :=
  C13.branch_valid mixH mixH_len bt bt_canon _ bpath bpath_ok bt_nc

/-- and `branch_sound` for a forged list (the leaf replaced) -/
def bforged : List Bytes := [encNode mixH bt, encNode mixH (leaf [0xbb, 0xcd]), [7, 7], encNode mixH (branch (leaf [0xaa]) (leaf [0xbb, 0xcd]))]

theorem bforged_nc : Bin.NoCollision mixH bt bforged := by
  intro n hn
  rw [sub_iff] at hn
  revert n
  decide +kernel

theorem branch_sound_witness (claimed : Option Bytes)
    (hv : ifBranchValid mixH bforged (hashNode mixH bt) [false, false, true, true] claimed = .valid) :
    claimed = some [0xbb, 0xcc] :=
  C13.branch_sound mixH mixH_len bt bt_canon _ bforged bforged_nc claimed hv

end Bin


/-! ## 6. Raw level, hexary -/
section RawHex
open PyTrie.HexRaw PyTrie.HexW

def childOkB (H : Bytes → Bytes) (db : Db) (c : Node) : Bool :=
  !(isHashed H c) || (!(hashOf H c == blankRoot H) && (lookup db (hashOf H c) == some (enc H c)) &&
    decide ((enc H c).length < 2 ^ 64))

def storedDB (H : Bytes → Bytes) (db : Db) : Node → Bool
  | blank => true
  | leaf _ _ => true
  | ext _ c => childOkB H db c && storedDB H db c
  | branch ch _ => (List.finRange 16).all fun i => childOkB H db (ch i) && storedDB H db (ch i)

theorem childOk_spec (H : Bytes → Bytes) (db : Db) (c : Node) (h : childOkB H db c = true) :
    isHashed H c = true → hashOf H c ≠ blankRoot H ∧ lookup db (hashOf H c) = some (enc H c) ∧
      rlpDecode (enc H c) = some (toItem H c) := by
  intro hh
  simp only [childOkB, hh, Bool.not_true, Bool.false_or, Bool.and_eq_true, Bool.not_eq_true',
    beq_eq_false_iff_ne, ne_eq, beq_iff_eq, decide_eq_true_eq] at h
  exact ⟨h.1.1, h.1.2, rlpDecode_rlp_of_length_lt (toItem H c) h.2⟩

theorem storedD_of_B (H : Bytes → Bytes) (db : Db) (t : Node) (h : storedDB H db t = true) : StoredD H db t := by
  induction t with
  | blank => trivial
  | leaf p v => trivial
  | ext p c ih =>
    simp only [storedDB, Bool.and_eq_true] at h
    exact ⟨childOk_spec H db c h.1, ih h.2⟩
  | branch ch v ih =>
    simp only [storedDB, List.all_eq_true, List.mem_finRange, forall_const, Bool.and_eq_true] at h
    exact fun i => ⟨childOk_spec H db (ch i) (h i).1, ih i (h i).2⟩

/-- the database written by the non-pruning executor for the two sets (hashed leaf, hashed branch, roots) -/
def rawDb : Db := (runW toyHs (blankRoot toyH) false (hist.take 2)).2.store.base

/-- `t1` has a hashed branch below the root extension and a hashed leaf below that -/
theorem t1_storedD : StoredD toyH rawDb t1 := storedD_of_B toyH rawDb t1 (by decide +kernel)

/-- `set_refines` applies: a third key that splits the extension -/
theorem set_refines_witness (st : St) (hst : st.db = rawDb) :
    rawSet toyH 10 st (toItem toyH t1) (nibs [0x14]) [6] =
      .ok (toItem toyH (setE toyHs t1 (nibs [0x14]) [6]).1,
           { db := applyPersists st.db (setE toyHs t1 (nibs [0x14]) [6]).2,
             evs := st.evs ++ (setE toyHs t1 (nibs [0x14]) [6]).2 }) :=
  Raw.set_refines toyH toyH_len t1 t1_canon (nibs [0x14]) [6] st (hst ▸ t1_storedD) 10 (by decide)

/-- the operation reads the hashed branch, prunes root and branch, and persists the new branch -/
example : (setE toyHs t1 (nibs [0x14]) [6]).2.map (fun e => match e with | .read _ => 0 | .prune _ => 1 | .persist _ _ => 2)
    = [1, 0, 1, 2] := by decide +kernel

theorem delete_refines_witness (st : St) (hst : st.db = rawDb) :
    rawDelete toyH 10 st (toItem toyH t1) (nibs k1) =
      .ok (toItem toyH (deleteE toyHs t1 (nibs k1)).1,
           { db := applyPersists st.db (deleteE toyHs t1 (nibs k1)).2,
             evs := st.evs ++ (deleteE toyHs t1 (nibs k1)).2 }) :=
  Raw.delete_refines toyH toyH_len t1 t1_canon (nibs k1) st (hst ▸ t1_storedD) 10 (by decide)

end RawHex


/-! ## 7. SparseMerkleTree: C14 / C15 -/
section SMT
open PyTrie.Smt
open PyTrie.Bin (Bits toBits)

def functionalB (db : Smt.Db) : Bool := db.all fun e => db.all fun e' => !(e.1 == e'.1) || e.2 == e'.2

theorem functional_of_B (db : Smt.Db) (h : functionalB db = true) : Functional db := by
  intro x b b' m1 m2
  simp only [functionalB, List.all_eq_true, Bool.or_eq_true, Bool.not_eq_true', beq_eq_false_iff_ne, ne_eq,
    beq_iff_eq] at h
  rcases h _ m1 _ m2 with h1 | h1
  · exact absurd rfl h1
  · exact h1

/-- three writes on one-byte keys: two keys sharing seven bits, then an overwrite -/
def smtOps : List C14.Op := [.set (toBits [0x12]) [1, 2, 3], .set (toBits [0x13]) [4], .set (toBits [0x12]) [9]]

theorem smt_functional : Functional (C14.run mixH 8 [] smtOps).db :=
  functional_of_B _ (by decide +kernel)

theorem smt_keys : C14.KeysSized 8 smtOps := by unfold C14.KeysSized; decide

/-- C14 on the witness: reads, the root, and a verifying branch -/
theorem smt_get : Smt.get (C14.run mixH 8 [] smtOps) (toBits [0x12]) = .ok [9] := by
  rw [C14.get_spec mixH mixH_len 8 [] smtOps smt_keys smt_functional _ (by decide)]
  have : C14.spec [] smtOps (toBits [0x12]) = [9] := by decide
  rw [this]; rfl

theorem smt_get_absent : Smt.get (C14.run mixH 8 [] smtOps) (toBits [0x55]) = .error .keyError := by
  rw [C14.get_spec mixH mixH_len 8 [] smtOps smt_keys smt_functional _ (by decide)]
  have : C14.spec [] smtOps (toBits [0x55]) = [] := by decide
  rw [this]; rfl

theorem smt_root : (C14.run mixH 8 [] smtOps).root = merkleRoot mixH 8 (C14.spec [] smtOps) :=
  C14.root_is_merkle_root mixH mixH_len 8 [] smtOps smt_keys smt_functional

/-- C15: the proof object built from what the tree returns for key `0x13` … -/
def smtKey : Bits := toBits [0x13]

def smtProof : Proof :=
  match getAux (C14.run mixH 8 [] smtOps).db (C14.run mixH 8 [] smtOps).root smtKey with
  | some (v, br) => { key := smtKey, value := v, branch := br }
  | none => { key := smtKey, value := [], branch := [] }

/-- … is `InSync` with the tree's contents -/
theorem smt_inSync : C15.InSync mixH 8 (C14.spec [] smtOps) smtProof := by
  have h := getAux_of_rep mixH _ smt_functional 8 _ _
    (C14.run_rep mixH mixH_len 8 [] smtOps smt_keys smt_functional) smtKey (by decide)
  unfold smtProof
  rw [h]
  exact ⟨by decide, rfl, rfl⟩

example : smtProof.value = [4] ∧ smtProof.branch.length = 8 := by decide +kernel

/-- a stream of later writes: the neighbouring key (diverging at the last bit, all 8 hashes passed on), a far
    key (diverging at the first bit, one hash suffices), and the tracked key itself (no hashes needed) -/
def smtUpdates : List C15.Update :=
  [{ key := toBits [0x12], value := [7], n := 8 }, { key := toBits [0x93], value := [8], n := 1 },
   { key := smtKey, value := [5], n := 0 }]

theorem smt_sufficient : ∀ u ∈ smtUpdates, C15.Sufficient smtProof.key u := by
  have hk : smtProof.key = smtKey := by unfold smtProof; split <;> rfl
  rw [hk]
  intro u hu
  simp only [smtUpdates, List.mem_cons, List.not_mem_nil, or_false] at hu
  rcases hu with rfl | rfl | rfl
  · exact Or.inr ⟨7, by decide, by decide⟩
  · exact Or.inr ⟨0, by decide, by decide⟩
  · exact Or.inl rfl

/-- `stream_tracks` applies -/
theorem smt_stream :
    ∃ p', C15.feed mixH 8 (C14.spec [] smtOps) smtProof smtUpdates =
        some (p', smtUpdates.foldl (fun g (u : C15.Update) => Smt.upd g u.key u.value) (C14.spec [] smtOps)) ∧
      C15.InSync mixH 8 (smtUpdates.foldl (fun g (u : C15.Update) => Smt.upd g u.key u.value) (C14.spec [] smtOps)) p' := by
  obtain ⟨p', h1, _, h3, _⟩ := C15.stream_tracks mixH 8 _ smtProof smt_inSync smtUpdates (by decide) smt_sufficient
  exact ⟨p', h1, h3⟩

end SMT


/-! ## 8. C09 / C11 — fog and walk -/
section FogWalk
open PyTrie.Fog PyTrie.Walk

/-- a fog reached by explorations (the example of `Props/C11.lean`) is well-formed, directly … -/
theorem fog_wf : Fog.Wf [[15, 0], [15, 1, 2]] := ⟨by unfold Fog.Sorted; decide, by unfold Fog.Antichain; decide⟩

/-- … so `nearestRight_spec` / `explore_spec` have a non-trivial instance -/
example : ∃ f', Fog.explore [[15, 0], [15, 1, 2]] [15, 0] [[3], [4, 5]] = .ok f' ∧ Fog.Wf f' := by
  have h : Fog.explore [[15, 0], [15, 1, 2]] [15, 0] [[3], [4, 5]] = .ok [[15, 0, 3], [15, 0, 4, 5], [15, 1, 2]] := by
    rfl
  exact ⟨_, h, (C11.explore_spec _ fog_wf _ _ _ h).1⟩

/-- a second version of `t1`: the embedded leaf's value changed (the key of the hashed leaf is stable) -/
def t2 : Node := Hex.set t1 (nibs k2) [7]

theorem t2_canon : Canon t2 := canon_set _ _ _ (by decide) t1_canon

/-- a schedule alternating between the two versions -/
def sched : List (Node × Path) := [(t1, []), (t2, [1]), (t1, [1, 2]), (t2, [1, 3])]

theorem sched_runs : (wrun start sched).isSome = true := by decide +kernel

def walkEnd : WState := (wrun start sched).getD start

theorem sched_run : wrun start sched = some walkEnd := by
  have h := sched_runs
  unfold walkEnd
  cases hw : wrun start sched with
  | none => rw [hw] at h; cases h
  | some s => rfl

theorem sched_done : walkEnd.fog = [] := by decide +kernel

/-- **`finds_stable` applies**: the stable key is met with its value -/
theorem walk_finds : (nibs k1, longV) ∈ walkEnd.met := by
  refine C09.finds_stable sched walkEnd ?_ (nibs k1) longV (by decide) ?_ sched_run sched_done
  · intro e he
    simp only [sched, List.mem_cons, List.not_mem_nil, or_false] at he
    rcases he with rfl | rfl | rfl | rfl
    · exact t1_canon
    · exact t2_canon
    · exact t1_canon
    · exact t2_canon
  · intro e he
    simp only [sched, List.mem_cons, List.not_mem_nil, or_false] at he
    rcases he with rfl | rfl | rfl | rfl <;> decide +kernel

/-- the other key was met with the value of the version consulted there -/
example : walkEnd.met = [(nibs k2, [7]), (nibs k1, longV)] := by decide +kernel

/-- an intermediate state of the walk: `Wf` fog with two unexplored prefixes; `step_defined` applies -/
def walkMid : WState := (wrun start (sched.take 2)).getD start

theorem walkMid_fog : walkMid.fog = [[1, 2], [1, 3]] := by decide +kernel

theorem walkMid_wf : Fog.Wf walkMid.fog := by
  rw [walkMid_fog]; exact ⟨by unfold Fog.Sorted; decide, by unfold Fog.Antichain; decide⟩

example : ∃ s', wstep walkMid t2 [1, 3] = some s' ∧ Fog.Wf s'.fog :=
  C09.step_defined walkMid walkMid_wf t2 t2_canon [1, 3] (by rw [walkMid_fog]; decide)

end FogWalk

end PyTrie.Props.NonVacuity
