import PyTrie.Model.Validate
/-! # C18 — invalid arguments are rejected up front and change nothing

`Val.validate ep ctx args` is the up-front validation of entry point `ep` (table transcribed from the
sources, in the code's order of checks). Every entry point of the models has the shape
`call`: validate, and only then operate on the state; so a refusal leaves the state — root hash,
database, reference counts, proof, fog — exactly as it was, at any point of any history. The weight
of this property is on the correspondence check (the table against the real entry points). -/
namespace PyTrie.Props.C18
open PyTrie PyTrie.Val

/-- the shape of every public entry point: validation first -/
def call {σ Out : Type} (w : σ) (ep : String) (ctx : Nat) (args : List PyVal) (op : σ → σ × Out) :
    σ × Except Exc Out :=
  match validate ep ctx args with
  | .error e => (w, .error e)
  | .ok _ => let r := op w; (r.1, .ok r.2)

/-- **a refused call changes nothing**, whatever the state and whatever the operation would have done -/
theorem refused_call_changes_nothing {σ Out : Type} (w : σ) (ep : String) (ctx : Nat) (args : List PyVal)
    (op : σ → σ × Out) (e : Exc) (h : validate ep ctx args = .error e) :
    call w ep ctx args op = (w, .error e) := by
  simp [call, h]

/-- consequently any history continues exactly as if the refused call had not been made -/
theorem history_unaffected {σ Out : Type} (w : σ) (ep : String) (ctx : Nat) (args : List PyVal)
    (op : σ → σ × Out) (e : Exc) (h : validate ep ctx args = .error e) (rest : σ → σ) :
    rest (call w ep ctx args op).1 = rest w := by
  rw [refused_call_changes_nothing w ep ctx args op e h]

def NotBytes : PyVal → Prop
  | .bytes _ => False
  | _ => True

theorem isBytes_notBytes (v : PyVal) (h : NotBytes v) : isBytes v = .error .validation := by
  cases v <;> simp_all [NotBytes, isBytes]

theorem isBytes_error (v : PyVal) (e : Exc) (h : isBytes v = .error e) : e = .validation := by
  cases v <;> simp_all [isBytes]

/-- entry points whose first argument must be a byte string -/
def bytesFirst : List String :=
  ["hx.init", "hx.get", "hx.exists", "hx.getitem", "hx.contains", "hx.delete", "hx.delitem", "hx.get_proof",
   "hx.set", "hx.setitem", "hx.get_from_proof",
   "bin.init", "bin.get", "bin.exists", "bin.delete", "bin.delete_subtrie", "bin.getitem", "bin.contains",
   "bin.set", "bin.setitem", "br.exist", "br.get_branch", "br.witness", "br.valid",
   "smt.get", "smt.branch", "smt.exists", "smt.delete", "smt.getitem", "smt.contains", "smt.delitem",
   "smt.set", "smt.setitem", "smt.from_db", "smt.calc_root", "smt.proof_init", "smt.proof_update"]

/-- a key / root hash / prefix that is not a byte string is refused with `ValidationError` by every one of them -/
theorem nonbytes_first_arg_refused (ep : String) (hep : ep ∈ bytesFirst) (ctx : Nat) (args : List PyVal)
    (h : NotBytes (arg args 0)) : validate ep ctx args = .error .validation := by
  have hb := isBytes_notBytes _ h
  simp only [bytesFirst, List.mem_cons, List.mem_nil_iff, or_false] at hep
  rcases hep with rfl | rfl | rfl | rfl | rfl | rfl | rfl | rfl | rfl | rfl | rfl | rfl | rfl | rfl | rfl | rfl | rfl | rfl | rfl |
    rfl | rfl | rfl | rfl | rfl | rfl | rfl | rfl | rfl | rfl | rfl | rfl | rfl | rfl | rfl | rfl | rfl | rfl <;>
  simp [validate, hb, bind, Except.bind, Except.map]

/-- entry points with a (key, value) pair: a non-bytes value is refused as well -/
theorem nonbytes_value_refused (ep : String) (hep : ep ∈ ["hx.set", "hx.setitem", "bin.set", "bin.setitem"])
    (ctx : Nat) (args : List PyVal) (h : NotBytes (arg args 1)) : validate ep ctx args = .error .validation := by
  have hb := isBytes_notBytes _ h
  simp only [List.mem_cons, List.mem_nil_iff, or_false] at hep
  rcases hep with rfl | rfl | rfl | rfl <;>
  (simp only [validate]
   cases h0 : isBytes (arg args 0) with
   | error e => have := isBytes_error _ _ h0; subst this; simp [bind, Except.bind]
   | ok b => simp [hb, bind, Except.bind])

/-- SparseMerkleTree / proof keys of the wrong length are refused with `ValidationError` -/
theorem wrong_length_key_refused (ep : String)
    (hep : ep ∈ ["smt.get", "smt.branch", "smt.exists", "smt.delete", "smt.set", "smt.proof_update"])
    (ks : Nat) (k : Bytes) (rest : List PyVal) (h : k.length ≠ ks) :
    validate ep ks (.bytes k :: rest) = .error .validation := by
  simp only [List.mem_cons, List.mem_nil_iff, or_false] at hep
  rcases hep with rfl | rfl | rfl | rfl | rfl | rfl <;>
  simp [validate, arg, isBytes, hasLength, h, bind, Except.bind]

/-- a root hash for `from_db` must be 32 bytes -/
theorem from_db_root_length (ks : Nat) (r : Bytes) (h : r.length ≠ 32) :
    validate "smt.from_db" ks [.bytes r] = .error .validation := by
  simp [validate, arg, isBytes, hasLength, h, bind, Except.bind]

/-- a branch of the wrong length is refused by `calc_root` and the proof constructor -/
theorem wrong_branch_length_refused (ep : String) (hep : ep ∈ ["smt.calc_root", "smt.proof_init"])
    (ks : Nat) (k v : Bytes) (br : List PyVal) (h : br.length ≠ k.length * 8) :
    validate ep ks [.bytes k, .bytes v, .list br] = .error .validation := by
  simp only [List.mem_cons, List.mem_nil_iff, or_false] at hep
  rcases hep with rfl | rfl <;>
  simp [validate, arg, isBytes, hasLength, bytesLen, h, bind, Except.bind]

/-- key size outside 1..32 -/
theorem key_size_refused (n : Int) (h : ¬ (1 ≤ n ∧ n ≤ 32)) :
    validate "smt.init" 0 [.int n] = .error .validation := by
  simp only [validate, arg, List.getD_cons_zero]
  split
  · next hh => simp only [Bool.and_eq_true, decide_eq_true_eq] at hh; exact absurd hh h
  · rfl

/-- a snapshot requested from a pruning trie, a reference count handed to a non-pruning trie -/
theorem snapshot_of_pruning_refused (ctx : Nat) (args : List PyVal) :
    validate "hx.at_root_pruning" ctx args = .error .validation := rfl

theorem refcount_for_nonpruning_refused (ctx : Nat) (args : List PyVal) :
    validate "hx.init_refcount_noprune" ctx args = .error .valueError := rfl

def NotList : PyVal → Prop
  | .list _ => False
  | _ => True

/-- malformed nibble sequences: not a sequence (bytes and str included) → `TypeError`;
    an element that is not an int in 0..15 → `ValueError` -/
theorem nibbles_not_sequence (v : PyVal) (h : NotList v) : isNibbles v = .error .typeError := by
  cases v <;> simp_all [NotList, isNibbles]

theorem nibbles_bad_element (l : List PyVal) (h : ∃ x ∈ l, isNibble x = false) :
    isNibbles (.list l) = .error .valueError := by
  obtain ⟨x, hx, hb⟩ := h
  have : l.all isNibble = false := by
    rw [List.all_eq_false]
    exact ⟨x, hx, by simp [hb]⟩
  simp [isNibbles, this]

theorem nibble_entry_points (ep : String)
    (hep : ep ∈ ["hx.traverse", "hx.traverse_from", "fog.nearest_unknown", "fog.nearest_right", "nibbles.new"])
    (ctx : Nat) (args : List PyVal) : validate ep ctx args = isNibbles (arg args 0) := by
  simp only [List.mem_cons, List.mem_nil_iff, or_false] at hep
  rcases hep with rfl | rfl | rfl | rfl | rfl <;> rfl

theorem explore_bad_prefix (ctx : Nat) (args : List PyVal) (e : Exc) (h : isNibbles (arg args 0) = .error e) :
    validate "fog.explore" ctx args = .error e := by
  simp [validate, h, bind, Except.bind]

end PyTrie.Props.C18
