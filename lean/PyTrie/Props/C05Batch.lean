import PyTrie.Lemmas.WorldBatch
import PyTrie.Lemmas.WorldBatchCex
import PyTrie.Lemmas.WorldBatchNP
/-! # C05 / C06 — `squash_changes` on a pruning trie is all-or-nothing and keeps pruning exact
(companion of `Props/C05.lean`, proved after the first round)

`PruneInvV` is the exact-pruning invariant stated over what the block *will commit* (`Store.view`: buffered
writes present, buffered deletes absent, everything else as in the wrapped database). Entering the block
establishes it from the outer trie's invariant, every `set` / `delete` on the batch trie preserves it and
never raises, and a normal exit (`batch_commit(do_deletes=True)`) hands the outer trie the batch's tree
and root with counts = true references and database = exactly the live nodes. An exceptional exit restores
the world (`C05.abort_restores_world`). -/
namespace PyTrie.Props.C05
open PyTrie PyTrie.Hex PyTrie.HexW

theorem batch_begin_invariant (Hs : Hashing) (blankRootHash : Hash) (w : World) (i : Nat) (hi : i < w.tries.size)
    (hnb : w.batch = none) (hinv : PruneInv Hs blankRootHash (w.tries[i]!) (w.opSt i)) :
    ∃ b, (w.batchBegin i).batch = some b ∧ b.outer = i ∧ b.trie.tree = (w.tries[i]!).tree ∧
      PruneInvV Hs blankRootHash b.trie ((w.batchBegin i).batchOpSt b) :=
  batchBegin_pruneInvV Hs blankRootHash w i hi hnb hinv

theorem batch_op_invariant (Hs : Hashing) (blankRootHash : Hash) (T : TrieSt) (hc : Canon T.tree) (key : Bytes)
    (val : Option Bytes) (s : OpSt) (hfa : s.store.failAfter = none) (hinv : PruneInvV Hs blankRootHash T s)
    (hrs : RefSound Hs T.tree (nibs key))
    (hblank : isBlank (opTree Hs T key val).1 = false → Hs.hashOf (opTree Hs T key val).1 ≠ blankRootHash) :
    ∃ T', (opSetDel Hs blankRootHash T key val s).2 = .ok T' ∧
      T'.tree = (opTree Hs T key val).1 ∧
      PruneInvV Hs blankRootHash T' (opSetDel Hs blankRootHash T key val s).1 ∧
      (opSetDel Hs blankRootHash T key val s).1.store.failAfter = none :=
  opSetDel_pruneInvV Hs blankRootHash T hc key val s hfa hinv hrs hblank

/-- the commit of a block with deletes (no write fault) completes and produces exactly the view -/
theorem commit_produces_view (cache : Dict (Option Bytes)) (base : Dict Bytes) (hnd : NoDupKeys cache) :
    (commitLoop true cache base none).1 = true ∧ (commitLoop true cache base none).2.2 = none ∧
    ∀ h, Dict.contains (commitLoop true cache base none).2.1 h =
      Store.view { base := base, cache := some cache, failAfter := none } h := commitLoop_view cache base hnd

/-- **committed block on a pruning trie**: the outer trie gets the batch's tree and root, the counts are the
    true reference counts and the database holds exactly the live nodes -/
theorem batch_commit_exact (Hs : Hashing) (blankRootHash : Hash) (w : World) (b : Batch) (hb : w.batch = some b)
    (hi : b.outer < w.tries.size) (hic : b.outer < w.counts.size)
    (hop : (w.tries[b.outer]!).prune = true) (hfa : w.failAfter = none)
    (hinv : PruneInvV Hs blankRootHash b.trie (w.batchOpSt b)) :
    let w' := (w.batchEnd false).2
    (w.batchEnd false).1 = .ok () ∧ w'.batch = none ∧
    (w'.tries[b.outer]!).tree = b.trie.tree ∧ (w'.tries[b.outer]!).root = b.trie.root ∧
    PruneInv Hs blankRootHash (w'.tries[b.outer]!) (w'.opSt b.outer) :=
  batchEnd_pruneInv Hs blankRootHash w b hb hi hic hop hfa hinv

/-! ## Non-pruning outer trie

The batch trie is a pruning trie over a ScratchDB whose counts start empty although the wrapped database
`base0` is not. `BatchInvNP` tracks exactness only for hashes that are not keys of `base0`. -/

theorem np_batch_begin (Hs : Hashing) (blankRootHash : Hash) (base0 : Dict Bytes) (T : TrieSt)
    (hroot : if isBlank T.tree then T.root = blankRootHash else T.root = Hs.hashOf T.tree ∧ T.root ≠ blankRootHash)
    (hkeys : ∀ h, 0 < occRoot Hs T.tree h → Dict.contains base0 h = true) (fa : Option Nat) :
    BatchInvNP Hs blankRootHash base0 { T with prune := true }
      { store := { base := base0, cache := some [], failAfter := fa }, counts := [], pending := [] } :=
  batchInvNP_begin Hs blankRootHash base0 T hroot hkeys fa

theorem np_batch_op (Hs : Hashing) (blankRootHash : Hash) (base0 : Dict Bytes) (T : TrieSt) (hc : Canon T.tree) (key : Bytes)
    (val : Option Bytes) (s : OpSt) (hinv : BatchInvNP Hs blankRootHash base0 T s)
    (hrs : RefSound Hs T.tree (nibs key))
    (hblank : isBlank (opTree Hs T key val).1 = false → Hs.hashOf (opTree Hs T key val).1 ≠ blankRootHash) :
    ∃ T', (opSetDel Hs blankRootHash T key val s).2 = .ok T' ∧
      T'.tree = (opTree Hs T key val).1 ∧
      BatchInvNP Hs blankRootHash base0 T' (opSetDel Hs blankRootHash T key val s).1 :=
  opSetDel_batchInvNP Hs blankRootHash base0 T hc key val s hinv hrs hblank

/-- **committed block on a non-pruning trie**: nothing pre-existing is removed, every node needed for the new
    root is present, and every key that was added is a node of the new tree — no node that served only
    intermediate states of the block is added -/
theorem np_batch_commit (Hs : Hashing) (blankRootHash : Hash) (base0 : Dict Bytes) (T : TrieSt) (s : OpSt)
    (hinv : BatchInvNP Hs blankRootHash base0 T s) (c : Dict (Option Bytes)) (hcache : s.store.cache = some c) :
    let db' := (commitLoop false c base0 none).2.1
    (∀ h, Dict.contains base0 h = true → Dict.contains db' h = true) ∧
    (∀ h, 0 < occRoot Hs T.tree h → Dict.contains db' h = true) ∧
    (∀ h, Dict.contains db' h = true → Dict.contains base0 h = false → 0 < occRoot Hs T.tree h) :=
  batch_commit_np Hs blankRootHash base0 T s hinv c hcache

end PyTrie.Props.C05
