import PyTrie.Lemmas.RawRefines
import PyTrie.Lemmas.BinRawRefines
import PyTrie.Lemmas.ReadRefines
import PyTrie.Lemmas.IterRefines
import PyTrie.Lemmas.RawHistory
import PyTrie.Lemmas.RawHistoryGet
import PyTrie.Lemmas.BinRawHistory
import PyTrie.Lemmas.BinRawAtomic
import PyTrie.Lemmas.PruneBodies
import PyTrie.Lemmas.YellowPaper
/-! # The raw-level write path refines the effect layer (tightens the tie for C01, C02, C04, C05, C06, C07)

`Model/HexRaw.lean` transcribes `_set`, `_set_kv_node`, `_set_branch_node`, `_delete`, `_delete_kv_node`,
`_delete_branch_node`, `_normalize_branch_node`, `_persist_node`, `_prune_node` and `get_node` statement by
statement over the data the Python code manipulates (raw nodes: `b""`, 2- and 17-item lists of byte strings /
hashes / embedded lists; a database of rlp bytes). The theorems: on the raw encoding of any canonical tree
whose hashed subtrees are stored, these functions return the raw encoding of the tree-level result and
emit **exactly** the event list (fetches, prunes, persists, in order) of `setE` / `deleteE`, and the database
afterwards is the old one plus those persists. So every theorem about the tree / effect / world layers is a
theorem about this transcription, which is itself run against the code (`hx.rawop`: new root and added
database entries after every direct operation of a non-pruning trie). -/
namespace PyTrie.Props.Raw
open PyTrie PyTrie.Hex PyTrie.HexD PyTrie.HexRaw

theorem set_refines (H : Bytes → Bytes) (hlen : ∀ b, (H b).length = 32) (t : Node) (hc : Canon t) (k : Path) (v : Bytes)
    (st : St) (hst : StoredD H st.db t) (fuel : Nat) (hf : 2 * k.length + 2 ≤ fuel) :
    rawSet H fuel st (toItem H t) k v =
      .ok (toItem H (setE (stdHashing H) t k v).1,
           { db := applyPersists st.db (setE (stdHashing H) t k v).2, evs := st.evs ++ (setE (stdHashing H) t k v).2 }) :=
  rawSet_refines H hlen t hc k v st hst fuel hf

theorem delete_refines (H : Bytes → Bytes) (hlen : ∀ b, (H b).length = 32) (t : Node) (hc : Canon t) (k : Path)
    (st : St) (hst : StoredD H st.db t) (fuel : Nat) (hf : 2 * k.length + 2 ≤ fuel) :
    rawDelete H fuel st (toItem H t) k =
      .ok (toItem H (deleteE (stdHashing H) t k).1,
           { db := applyPersists st.db (deleteE (stdHashing H) t k).2, evs := st.evs ++ (deleteE (stdHashing H) t k).2 }) :=
  rawDelete_refines H hlen t hc k st hst fuel hf

/-- py-trie's own hashing is the instance `H = keccak` -/
theorem keccak_is_std : keccakHashing = stdHashing keccak := keccakHashing_eq

end PyTrie.Props.Raw

/-! ## Binary trie -/
namespace PyTrie.Props.Raw
open PyTrie PyTrie.Bin PyTrie.BinRaw

/-- the raw-level `BinaryTrie._set` (over node hashes and the database; store, delete and delete_subtrie
    modes) returns the hash of the tree-level result and saves exactly the nodes `bsetS` lists, in order;
    it raises `NodeOverrideError` exactly when the tree-level function does -/
theorem bin_set_refines (H : Bytes → Bytes) (hlen : ∀ b, (H b).length = 32) (t : BNode) (hc : BCanon t) (k : Bits) (v : Bytes)
    (sub : Bool) (st : BinRaw.St) (hst : AllStored H st.db t) (hnc : NoCollisionOp H t (bsetS t k v sub).2)
    (fuel : Nat) (hf : k.length + 1 < fuel) :
    BinRaw.rawSet H (H []) fuel st (hashNode H t) k v sub =
      match (bsetS t k v sub).1 with
      | .ok t' => .ok (rootOf H t', { db := applySaves H st.db (bsetS t k v sub).2 })
      | .error _ => .error .override :=
  BinRaw.rawSet_refines H hlen t hc k v sub st hst hnc fuel hf

theorem bin_set_blank (H : Bytes → Bytes) (hlen : ∀ b, (H b).length = 32) (k : Bits) (hk : k ≠ []) (v : Bytes) (sub : Bool)
    (st : BinRaw.St) (fuel : Nat) (hf : 0 < fuel) :
    BinRaw.rawSet H (H []) fuel st (H []) k v sub =
      .ok (rootOf H (match bsetTop none k v sub with | .ok t' => t' | .error _ => none),
           { db := applySaves H st.db (bsetTopS none k v sub).2 }) :=
  BinRaw.rawSet_blank H hlen k hk v sub st fuel hf

end PyTrie.Props.Raw

/-! ## Hexary read path -/
namespace PyTrie.Props.Raw
open PyTrie PyTrie.Hex PyTrie.HexD PyTrie.HexRaw

/-- `annotate_node` over the raw encoding of a node is the tree-level annotation -/
theorem annotate_refines (H : Bytes → Bytes) (hlen : ∀ b, (H b).length = 32) (n : Node) :
    annotateD (toItem H n) = some (Ann.toD H (annotate n)) := annotateD_toItem H hlen n

/-- raw-level `_get_proof` over the database = the tree-level proof, node for node -/
theorem get_proof_refines (H : Bytes → Bytes) (hlen : ∀ b, (H b).length = 32) (t : Node) (hc : Canon t) (db : Db)
    (hst : StoredD H db t) (k : Path) (fuel : Nat) (hf : k.length + 1 < fuel) :
    getProofD H db fuel (toItem H t) k = .ok ((getProof t k).map (toItem H)) := getProofD_refines H hlen t hc db hst k fuel hf

end PyTrie.Props.Raw

/-! ## `NodeIterator` at raw level -/
namespace PyTrie.Props.Raw
open PyTrie PyTrie.Hex PyTrie.HexD PyTrie.HexRaw

/-- raw-level `NodeIterator._get_next_key` (leftmost key under an annotated node, through `traverse_from` over the
    database) = the tree-level `nextKey` -/
theorem next_key_refines (H : Bytes → Bytes) (hlen : ∀ b, (H b).length = 32) (t : Node) (hc : Canon t) (db : Db) (hst : StoredD H db t)
    (tr : Path) (tfuel fuel : Nat) (htf : 64 ≤ tfuel) (hf : YP.height t + 1 ≤ fuel) :
    nextKeyD H db tfuel fuel (Ann.toD H (annotate t)) tr = .ok (nextKey t tr) :=
  nextKeyD_refines H hlen t hc db hst tr tfuel fuel htf hf

/-- raw-level `NodeIterator._get_key_after` = the tree-level `keyAfter` (whose result is proved to be the successor
    key in `C10.next_is_successor`) -/
theorem key_after_refines (H : Bytes → Bytes) (hlen : ∀ b, (H b).length = 32) (t : Node) (hc : Canon t) (db : Db) (hst : StoredD H db t)
    (key tr : Path) (tfuel fuel : Nat) (htf : 64 ≤ tfuel) (hf : 20 * (YP.height t + 1) ≤ fuel) :
    keyAfterD H db tfuel fuel (Ann.toD H (annotate t)) key tr = .ok (keyAfter t key tr) :=
  keyAfterD_refines H hlen t hc db hst key tr tfuel fuel htf hf

end PyTrie.Props.Raw

/-! ## Whole histories at raw level (C01, C02, C04)

`HexRaw.rawOp` is `HexaryTrie.set` / `delete` end to end as the code runs it on a non-pruning trie over a plain dict
(root fetch, raw-level `_set` / `_delete`, root store); `rawRun` threads root hash and database through a history.
`ReachOps … false ops T s` is the world executor's run of `ops` together with the run-level no-collision facts of
every step; the two side conditions are physical (the hash of `rlp(b"")` is not a key of the final database; no stored
body has 2^64 bytes). -/
namespace PyTrie.Props.Raw
open PyTrie PyTrie.Hex PyTrie.HexD PyTrie.HexW PyTrie.HexRaw
open PyTrie.Props.C01 (Op run spec)

/-- along every such history the raw-level run returns the executor's root hash and a database answering every
    lookup as the executor's does: every world-level theorem is a theorem about the raw-level transcription -/
theorem history_is_world_run (H : Bytes → Bytes) (hlen : ∀ b, (H b).length = 32) (ops : List Op) (T : TrieSt) (s : OpSt)
    (h : ReachOps (stdHashing H) (blankRoot H) false ops T s)
    (hbk : Dict.get? s.store.base (blankRoot H) = none)
    (hsm : ∀ h b, Dict.get? s.store.base h = some b → b.length < 2 ^ 64) :
    ∃ db, rawRun H ops (blankRoot H, []) = .ok (T.root, db) ∧ DbAgrees db s.store.base :=
  rawRun_is_world_run H hlen ops T s h hbk hsm

/-- **the raw-level run computes the Yellow Paper root of the final contents** -/
theorem history_root_is_yellow_paper (H : Bytes → Bytes) (hlen : ∀ b, (H b).length = 32) (ops : List Op) (T : TrieSt) (s : OpSt)
    (h : ReachOps (stdHashing H) (blankRoot H) false ops T s)
    (hbk : Dict.get? s.store.base (blankRoot H) = none)
    (hsm : ∀ h b, Dict.get? s.store.base h = some b → b.length < 2 ^ 64) :
    ∃ db, rawRun H ops (blankRoot H, []) = .ok (YP.ypRoot H (YP.height (run ops)) (itemsOf (run ops)), db) := by
  obtain ⟨db, hr⟩ := rawRun_root H hlen ops T s h hbk hsm
  exact ⟨db, by rw [hr, YP.rootHash_eq_ypRoot H (run ops) (PyTrie.Props.C01.canon_run ops) _ (Nat.le_refl _)]⟩

/-- **C01 end to end at raw level**: run any history through the raw-level `set` / `delete`, then look any key up
    through the database (`getD`: `HexaryTrie.get` over rlp-decoded nodes fetched from that database): the result is
    the last value stored under the key, `b""` if there is none or it was deleted — and no exception -/
theorem history_get (H : Bytes → Bytes) (hlen : ∀ b, (H b).length = 32) (ops : List Op) (T : TrieSt) (s : OpSt)
    (h : ReachOps (stdHashing H) (blankRoot H) false ops T s)
    (hbk : Dict.get? s.store.base (blankRoot H) = none)
    (hsm : ∀ h b, Dict.get? s.store.base h = some b → b.length < 2 ^ 64) (key : Bytes) :
    ∃ db, rawRun H ops (blankRoot H, []) = .ok (rootHash H (run ops), db) ∧
      getD H db (rootHash H (run ops)) (nibs key) = .ok (spec ops key) :=
  rawRun_get H hlen ops T s h hbk hsm key

end PyTrie.Props.Raw

/-! ## Whole histories of the binary trie at raw level (C12)

`BinRaw.rawSet` is `BinaryTrie._set` (with `_set_kv_node`, `_set_branch_node`, `_hash_and_save`) over node hashes and a
database of encoded nodes; `binRawRun` threads root hash and database through a history, as the code does.
`BinReach H ops t`: the tree-level history of accepted calls on non-empty keys, with the run-level no-collision facts of
every step. -/
namespace PyTrie.Props.Raw
open PyTrie PyTrie.Bin PyTrie.BinRaw
open PyTrie.Props.C12 (Op run spec)

/-- the raw-level run returns the root hash of the tree-level history and a database storing that whole tree -/
theorem bin_history (H : Bytes → Bytes) (hlen : ∀ b, (H b).length = 32) (ops : List Op) (t : Option BNode) (h : BinReach H ops t) :
    ∃ st, binRawRun H ops (H [], { db := [] }) = .ok (rootOf H t, st) ∧ (∀ n, t = some n → AllStored H st.db n) :=
  binRawRun_refines H hlen ops t h

theorem bin_history_tree (H : Bytes → Bytes) (ops : List Op) (t : Option BNode) (h : BinReach H ops t) : t = run ops :=
  binReach_run H ops t h

/-- **end to end at raw level**: `BinaryTrie.get` over the database the raw-level run produced returns the map model's value -/
theorem bin_history_get (H : Bytes → Bytes) (hlen : ∀ b, (H b).length = 32) (ops : List Op) (t : Option BNode) (h : BinReach H ops t)
    (k : Bits) :
    ∃ st, binRawRun H ops (H [], { db := [] }) = .ok (rootOf H (run ops), st) ∧
      bgetD (H []) st.db (k.length + 1) (rootOf H (run ops)) k = .ok (spec ops k) :=
  binRawRun_get H hlen ops t h k

end PyTrie.Props.Raw

/-! ## The binary `_set` with the state at the moment an exception leaves it (C12) -/
namespace PyTrie.Props.Raw
open PyTrie PyTrie.Bin

/-- `Model/BinRawT.lean` (state returned in every case) agrees with `Model/BinRaw.lean` on every input -/
theorem binT_agrees (H : Bytes → Bytes) (blank : Hash) (fuel : Nat) (st : BinRaw.St) (h : Hash) (k : Bits) (v : Bytes) (sub : Bool) :
    BinRaw.rawSet H blank fuel st h k v sub = BinRawT.forget (BinRawT.rawSetT H blank fuel st h k v sub) :=
  BinRawT.rawSetT_agrees H blank fuel st h k v sub

/-- **a call refused with `NodeOverrideError` has saved nothing** — every input, every database -/
theorem bin_refused_saves_nothing (H : Bytes → Bytes) (blank : Hash) (fuel : Nat) (st : BinRaw.St) (h : Hash) (k : Bits) (v : Bytes)
    (sub : Bool) (he : (BinRawT.rawSetT H blank fuel st h k v sub).2 = .error .override) :
    (BinRawT.rawSetT H blank fuel st h k v sub).1 = st := BinRawT.rawSetT_override_atomic H blank fuel st h k v sub he

/-- the database is add-only under `_set`: the old write log is a suffix of the new one, whatever happens -/
theorem bin_db_add_only (H : Bytes → Bytes) (blank : Hash) (fuel : Nat) (st : BinRaw.St) (h : Hash) (k : Bits) (v : Bytes) (sub : Bool) :
    ∃ added, (BinRawT.rawSetT H blank fuel st h k v sub).1.db = added ++ st.db :=
  BinRawT.rawSetT_db_suffix H blank fuel st h k v sub

end PyTrie.Props.Raw

/-! ## Pruning tries: what the pruned database holds, read by the raw-level reader (C01, C06)

`ReachOpsNC … prune ops T s`: the executor's run of a history, pruning on or off, with the run-level no-collision facts
of every step (`NoClobber` in both modes). The pruning invariant of C06 says which *keys* remain; here the *bodies*: the
database is complete for the current root, so the raw-level reader answers every key correctly from the pruned database. -/
namespace PyTrie.Props.Raw
open PyTrie PyTrie.Hex PyTrie.HexD PyTrie.HexW PyTrie.HexRaw
open PyTrie.Props.C01 (Op run spec)

/-- after every history, pruning on or off: the root pointer is the hash of the tree, the root node and every hashed node
    below it are stored under their hashes **with their encodings** -/
theorem pruned_db_complete (Hs : Hashing) (blankRootHash : Hash) (prune : Bool) (ops : List Op) (T : TrieSt) (s : OpSt)
    (h : ReachOpsNC Hs blankRootHash prune ops T s) : Complete Hs blankRootHash s.store.base T :=
  reachOpsNC_complete Hs blankRootHash prune ops T s h

/-- one pruning `set` / `delete` keeps the database complete for the new root -/
theorem prune_op_keeps_complete (Hs : Hashing) (blankRootHash : Hash) (T : TrieSt) (hc : Canon T.tree) (key : Bytes)
    (val : Option Bytes) (s : OpSt) (hfa : s.store.failAfter = none) (hinv : PruneInv Hs blankRootHash T s)
    (hcomp : Complete Hs blankRootHash s.store.base T) (hrs : RefSound Hs T.tree (nibs key))
    (hnc : NoClobber s.store.base (opWrites Hs T key val))
    (hblank : isBlank (opTree Hs T key val).1 = false → Hs.hashOf (opTree Hs T key val).1 ≠ blankRootHash)
    (T' : TrieSt) (hok : (opSetDel Hs blankRootHash T key val s).2 = .ok T') :
    Complete Hs blankRootHash (opSetDel Hs blankRootHash T key val s).1.store.base T' :=
  opSetDel_prune_complete Hs blankRootHash T hc key val s hfa hinv hcomp hrs hnc hblank T' hok

/-- **`get` over rlp-decoded nodes fetched from the database as the executor left it — pruned or not — returns the last
    value stored under the key (`b""` if none)**: nothing still needed has been pruned, and what is stored is what is needed -/
theorem pruned_db_get (H : Bytes → Bytes) (hlen : ∀ b, (H b).length = 32) (prune : Bool) (ops : List Op) (T : TrieSt) (s : OpSt)
    (h : ReachOpsNC (stdHashing H) (blankRoot H) prune ops T s)
    (hbk : Dict.get? s.store.base (blankRoot H) = none)
    (hsm : ∀ h b, Dict.get? s.store.base h = some b → b.length < 2 ^ 64) (key : Bytes) :
    getD H s.store.base T.root (nibs key) = .ok (spec ops key) :=
  HexRaw.pruned_db_get H hlen prune ops T s h hbk hsm key

end PyTrie.Props.Raw
