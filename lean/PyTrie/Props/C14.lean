import PyTrie.Lemmas.SmtProofs
/-! # C14 — SparseMerkleTree is a fixed-depth map whose root and branches always verify

`Smt.init/getAux/get/branch/set/delete/calcRoot` transcribe `trie/smt.py` at database level; the
database is the log of all writes. A history is any list of `set`/`delete` calls on keys of the
tree's size. `Functional db` (no hash bound to two bodies in the database) is the run-level
no-collision predicate; `H` is arbitrary with 32-byte output. -/
namespace PyTrie.Props.C14
open PyTrie PyTrie.Smt
open PyTrie.Bin (Bits)

inductive Op where
  | set (k : Bits) (v : Bytes)
  | delete (k : Bits)

def Op.key : Op → Bits
  | .set k _ => k
  | .delete k => k

variable (H : Bytes → Bytes)

def apply (t : Tree) : Op → Option (Tree × List Hash)
  | .set k v => Smt.set H t k v
  | .delete k => Smt.delete H t k

def step (t : Tree) (o : Op) : Tree :=
  match apply H t o with
  | some (t', _) => t'
  | none => t

def run (d : Nat) (dflt : Bytes) (ops : List Op) : Tree := ops.foldl (step H) (init H d dflt)

/-- the map model: last value written per key, the default for cleared / untouched keys -/
def specStep (dflt : Bytes) (f : Bits → Bytes) : Op → Bits → Bytes
  | .set k v => upd f k v
  | .delete k => upd f k dflt

def spec (dflt : Bytes) (ops : List Op) : Bits → Bytes := ops.foldl (specStep dflt) (fun _ => dflt)

theorem set_db_mono (t : Tree) (k : Bits) (v : Bytes) (t' : Tree) (u : List Hash)
    (h : Smt.set H t k v = some (t', u)) : ∀ x ∈ t.db, x ∈ t'.db := by
  unfold Smt.set at h
  split at h
  · cases h
  · simp only [Option.some.injEq, Prod.mk.injEq] at h
    obtain ⟨rfl, _⟩ := h
    intro x hx
    simp [hx]

theorem step_db_mono (t : Tree) (o : Op) : ∀ x ∈ t.db, x ∈ (step H t o).db := by
  unfold step
  cases h : apply H t o with
  | none => exact fun x hx => hx
  | some r =>
    obtain ⟨t', u⟩ := r
    cases o with
    | set k v => exact set_db_mono H t k v t' u h
    | delete k => exact set_db_mono H t k t.default t' u h

theorem functional_of_subset {db db' : Db} (hf : Functional db') (hs : ∀ x ∈ db, x ∈ db') : Functional db :=
  fun h b b' m1 m2 => hf h b b' (hs _ m1) (hs _ m2)

def KeysSized (d : Nat) (ops : List Op) : Prop := ∀ o ∈ ops, o.key.length = d

/-- the invariant carried through a history (stated for the fold from any state in the invariant) -/
theorem run_invariant (hlen : ∀ b, (H b).length = 32) (d : Nat) (dflt : Bytes) (ops : List Op) (hk : KeysSized d ops)
    (t : Tree) (f : Bits → Bytes) (hd : t.depth = d) (hdf : t.default = dflt) (hr : Rep H t.db d t.root f)
    (hfun : Functional (ops.foldl (step H) t).db) :
    let t' := ops.foldl (step H) t
    t'.depth = d ∧ t'.default = dflt ∧ Rep H t'.db d t'.root (ops.foldl (specStep dflt) f) := by
  induction ops generalizing t f with
  | nil => exact ⟨hd, hdf, hr⟩
  | cons o os ih =>
    have hko : o.key.length = d := hk o (by simp)
    have hkos : KeysSized d os := fun x hx => hk x (by simp [hx])
    simp only [List.foldl_cons] at hfun ⊢
    -- the database only grows along the rest of the history
    have hgrow : ∀ (l : List Op) (s : Tree), ∀ x ∈ s.db, x ∈ (l.foldl (step H) s).db := by
      intro l
      induction l with
      | nil => intro s x hx; exact hx
      | cons a as iha => intro s x hx; exact iha _ x (step_db_mono H s a x hx)
    have hfun1 : Functional (step H t o).db := functional_of_subset hfun (hgrow os _)
    have hfun0 : Functional t.db := functional_of_subset hfun1 (step_db_mono H t o)
    have key : ∀ (k : Bits) (v : Bytes), k.length = d →
        ∃ t' ups, Smt.set H t k v = some (t', ups) ∧ t'.depth = d ∧ t'.default = dflt ∧
          Rep H t'.db d t'.root (upd f k v) := by
      intro k v hkl
      obtain ⟨t', ups, h1, h2, h3, _, h5, _⟩ := set_spec H hlen t f hfun0 (hd ▸ hr) k (hd ▸ hkl) v
      exact ⟨t', ups, h1, h2.trans hd, h3.trans hdf, by rw [h2, hd] at h5; exact h5⟩
    cases o with
    | set k v =>
      obtain ⟨t', ups, h1, h2, h3, h4⟩ := key k v hko
      have hs : step H t (.set k v) = t' := by simp [step, apply, h1]
      rw [hs] at hfun ⊢
      exact ih hkos t' _ h2 h3 h4 hfun
    | delete k =>
      obtain ⟨t', ups, h1, h2, h3, h4⟩ := key k t.default hko
      have hs : step H t (.delete k) = t' := by simp [step, apply, Smt.delete, h1]
      rw [hs] at hfun ⊢
      have : specStep dflt f (.delete k) = upd f k t.default := by simp [specStep, hdf]
      rw [this]
      exact ih hkos t' _ h2 h3 h4 hfun

/-- after any history the root resolves, through the database, to the full tree of the map model -/
theorem run_rep (hlen : ∀ b, (H b).length = 32) (d : Nat) (dflt : Bytes) (ops : List Op) (hk : KeysSized d ops)
    (hfun : Functional (run H d dflt ops).db) :
    Rep H (run H d dflt ops).db d (run H d dflt ops).root (spec dflt ops) := by
  have hi := init_rep H hlen d dflt
  exact (run_invariant H hlen d dflt ops hk (init H d dflt) _ hi.2 rfl hi.1 hfun).2.2

/-- **the root is the Merkle root of the full depth-`d` tree of the current contents** — for every
    `H`, hence independent of the history -/
theorem root_is_merkle_root (hlen : ∀ b, (H b).length = 32) (d : Nat) (dflt : Bytes) (ops : List Op)
    (hk : KeysSized d ops) (hfun : Functional (run H d dflt ops).db) :
    (run H d dflt ops).root = merkleRoot H d (spec dflt ops) :=
  rep_root H _ d _ _ (run_rep H hlen d dflt ops hk hfun)

theorem root_history_independent (hlen : ∀ b, (H b).length = 32) (d : Nat) (dflt : Bytes) (ops₁ ops₂ : List Op)
    (h₁ : KeysSized d ops₁) (h₂ : KeysSized d ops₂)
    (f₁ : Functional (run H d dflt ops₁).db) (f₂ : Functional (run H d dflt ops₂).db)
    (h : spec dflt ops₁ = spec dflt ops₂) : (run H d dflt ops₁).root = (run H d dflt ops₂).root := by
  rw [root_is_merkle_root H hlen d dflt ops₁ h₁ f₁, root_is_merkle_root H hlen d dflt ops₂ h₂ f₂, h]

/-- once everything is cleared the root is the initial root again -/
theorem cleared_root_is_initial (hlen : ∀ b, (H b).length = 32) (d : Nat) (dflt : Bytes) (ops : List Op)
    (hk : KeysSized d ops) (hfun : Functional (run H d dflt ops).db) (h : spec dflt ops = fun _ => dflt) :
    (run H d dflt ops).root = (init H d dflt).root := by
  rw [root_is_merkle_root H hlen d dflt ops hk hfun, h]
  exact (rep_root H _ d _ _ (init_rep H hlen d dflt).1).symm

/-- **reads**: `get` returns the last value written (the default for cleared keys); a blank value reads
    as absent (`KeyError`) -/
theorem get_spec (hlen : ∀ b, (H b).length = 32) (d : Nat) (dflt : Bytes) (ops : List Op) (hk : KeysSized d ops)
    (hfun : Functional (run H d dflt ops).db) (key : Bits) (hkey : key.length = d) :
    Smt.get (run H d dflt ops) key =
      if spec dflt ops key = [] then .error .keyError else .ok (spec dflt ops key) := by
  unfold Smt.get
  rw [getAux_of_rep H _ hfun d _ _ (run_rep H hlen d dflt ops hk hfun) key hkey]

/-- **branches verify**: for every readable key `calc_root(key, value, branch(key))` is the root -/
theorem branch_verifies (hlen : ∀ b, (H b).length = 32) (d : Nat) (dflt : Bytes) (ops : List Op) (hk : KeysSized d ops)
    (hfun : Functional (run H d dflt ops).db) (key : Bits) (hkey : key.length = d) (br : List Hash)
    (hb : Smt.branch (run H d dflt ops) key = .ok br) :
    calcRoot H key (spec dflt ops key) br = (run H d dflt ops).root := by
  unfold Smt.branch at hb
  rw [getAux_of_rep H _ hfun d _ _ (run_rep H hlen d dflt ops hk hfun) key hkey] at hb
  simp only at hb
  split at hb
  · cases hb
  · cases hb
    rw [calcRoot_siblings H d _ key hkey, root_is_merkle_root H hlen d dflt ops hk hfun]

/-- `set` / `delete` return the hashes of the updated path, root → leaf -/
theorem set_returns_path (hlen : ∀ b, (H b).length = 32) (t : Tree) (f : Bits → Bytes)
    (hfun : Functional t.db) (hr : Rep H t.db t.depth t.root f) (key : Bits) (hk : key.length = t.depth)
    (value : Bytes) :
    ∃ t' ups, Smt.set H t key value = some (t', ups) ∧ ups = pathHashes H t.depth (upd f key value) key := by
  obtain ⟨t', ups, h1, _, _, _, _, h6⟩ := set_spec H hlen t f hfun hr key hk value
  exact ⟨t', ups, h1, h6⟩

/-- `from_db` over the same database and root reads identically: reading depends on `db`, `root`, `depth` only -/
theorem from_db_same (t : Tree) (dflt' : Bytes) (key : Bits) :
    Smt.get { t with default := dflt' } key = Smt.get t key := rfl

end PyTrie.Props.C14
