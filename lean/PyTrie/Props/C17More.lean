import PyTrie.Props.C17
import PyTrie.Lemmas.SdbMore
/-! # C17, continued: `copy()` as it behaves, and a ScratchDB used for several blocks in a row

`copy()` is listed among C17's observables. What the code computes (`merge(wrapped, cache)` with the `DELETED` entries
filtered out) is: buffered writes win, a key whose latest buffered action is a delete is ABSENT from the copy (it does not
read through, unlike `__getitem__` / `__contains__`), untouched keys keep the wrapped value — i.e. the copy is what a commit
with `do_deletes=True` would leave. Stated here as a theorem about the model that is run against the code.

Blocks in a row on one object: after each block the buffer is empty (both exits), so the next block starts from the wrapped
database the previous one left; `runBlocks` folds blocks over a ScratchDB, and the wrapped database at the end answers every
key by the last COMMITTED action on it (aborted blocks contribute nothing). -/
namespace PyTrie.Props.C17
open PyTrie PyTrie.HexW PyTrie.Sdb

/-- **`copy()`**: latest buffered write, absent after a buffered delete, the wrapped value otherwise -/
theorem copy_spec (w : Dict Bytes) (hw : NoDupKeys w) (acts : List Act) (k : Bytes) :
    Dict.get? (copy (runActs { wrapped := w, cache := [] } acts)) k =
      match lastAct acts k with
      | some (some v) => some v
      | some none => none
      | none => Dict.get? w k := by
  rw [copy_get? _ (by rw [Sdb.wrapped_untouched]; exact hw) (cache_lastAct w acts k).2 k,
    (cache_lastAct w acts k).1, Sdb.wrapped_untouched]
  cases lastAct acts k with
  | none => rfl
  | some o => cases o <;> rfl

/-- `copy()` is what a commit with `do_deletes=True` would leave (as a mapping) -/
theorem copy_eq_commit_with_deletes (w : Dict Bytes) (hw : NoDupKeys w) (acts : List Act) (k : Bytes) :
    Dict.get? (copy (runActs { wrapped := w, cache := [] } acts)) k =
      Dict.get? (commit (runActs { wrapped := w, cache := [] } acts) true none).2.1.wrapped k := by
  rw [copy_spec w hw acts k, (Sdb.commit_spec w hw acts true k).2.2]
  cases lastAct acts k with
  | none => rfl
  | some o => cases o <;> rfl

/-- one block on a ScratchDB: its buffered actions, how it is left (`committed = false`: by an exception), the flag -/
structure Block where
  acts : List Act
  committed : Bool
  doDeletes : Bool

def runBlock (s : Sdb) (b : Block) : Sdb :=
  let s' := runActs s b.acts
  if b.committed then (commit s' b.doDeletes none).2.1 else abort s'

def runBlocks (s : Sdb) (bs : List Block) : Sdb := bs.foldl runBlock s

/-- what the blocks leave under key `k`, block by block: a committed block's latest action on `k` decides (a delete only
    when deletes were requested), anything else leaves the previous answer -/
def blocksSpec (start : Option Bytes) (k : Bytes) : List Block → Option Bytes
  | [] => start
  | b :: rest =>
    blocksSpec (if b.committed then
        (match lastAct b.acts k with
         | some (some v) => some v
         | some none => if b.doDeletes then none else start
         | none => start)
      else start) k rest

/-- the buffer is empty after every block, and the wrapped database keeps having unique keys -/
theorem runBlock_clean (s : Sdb) (hc : s.cache = []) (hw : NoDupKeys s.wrapped) (b : Block) :
    (runBlock s b).cache = [] ∧ NoDupKeys (runBlock s b).wrapped := by
  have _ := hc
  unfold runBlock
  simp only
  cases b.committed with
  | true =>
    simp only [if_true]
    refine ⟨rfl, ?_⟩
    show NoDupKeys (commitLoop _ _ _ _).2.1
    apply commitLoop_nodup
    rw [runActs_wrapped]; exact hw
  | false =>
    simp only [Bool.false_eq_true, if_false]
    refine ⟨rfl, ?_⟩
    show NoDupKeys (runActs s b.acts).wrapped
    rw [runActs_wrapped]; exact hw

private theorem runBlock_get? (w : Dict Bytes) (hw : NoDupKeys w) (b : Block) (k : Bytes) :
    Dict.get? (runBlock { wrapped := w, cache := [] } b).wrapped k =
      (if b.committed then
        (match lastAct b.acts k with
         | some (some v) => some v
         | some none => if b.doDeletes then none else Dict.get? w k
         | none => Dict.get? w k)
      else Dict.get? w k) := by
  unfold runBlock
  simp only
  cases b.committed with
  | true =>
    simp only [if_true]
    exact (Sdb.commit_spec w hw b.acts b.doDeletes k).2.2
  | false =>
    simp only [Bool.false_eq_true, if_false]
    rw [Sdb.abort_spec]

private theorem runBlocks_spec_aux (s : Sdb) (hc : s.cache = []) (hw : NoDupKeys s.wrapped) (bs : List Block)
    (k : Bytes) :
    (runBlocks s bs).cache = [] ∧
    Dict.get? (runBlocks s bs).wrapped k = blocksSpec (Dict.get? s.wrapped k) k bs := by
  induction bs generalizing s with
  | nil => exact ⟨hc, rfl⟩
  | cons b rest ih =>
    obtain ⟨hc', hw'⟩ := runBlock_clean s hc hw b
    have := ih (runBlock s b) hc' hw'
    show (runBlocks (runBlock s b) rest).cache = [] ∧
      Dict.get? (runBlocks (runBlock s b) rest).wrapped k = _
    refine ⟨this.1, ?_⟩
    rw [this.2]
    obtain ⟨w, c⟩ := s
    simp only at hc hw
    subst hc
    rw [runBlock_get? w hw b k]
    rfl

/-- **several blocks in a row on one ScratchDB**: the buffer is empty at the end and every key reads the last committed action -/
theorem runBlocks_spec (w : Dict Bytes) (hw : NoDupKeys w) (bs : List Block) (k : Bytes) :
    (runBlocks { wrapped := w, cache := [] } bs).cache = [] ∧
    Dict.get? (runBlocks { wrapped := w, cache := [] } bs).wrapped k = blocksSpec (Dict.get? w k) k bs :=
  runBlocks_spec_aux { wrapped := w, cache := [] } rfl hw bs k

end PyTrie.Props.C17

/-! non-vacuity: three blocks on one object — a committed one without deletes (its delete of key 2 is ignored), an aborted
    one, a committed one with deletes — evaluated, and `copy()` in the middle of an open block -/
namespace PyTrie.Props.C17
open PyTrie PyTrie.HexW PyTrie.Sdb

example : (runBlocks { wrapped := [([1], [9]), ([2], [8])], cache := [] }
    [⟨[.write [1] [7], .delete [2]], true, false⟩, ⟨[.write [3] [5], .delete [1]], false, true⟩,
     ⟨[.delete [1], .write [4] [4]], true, true⟩]).wrapped = [([2], [8]), ([4], [4])] := by decide

example : copy (runActs { wrapped := [([1], [9]), ([2], [8])], cache := [] } [.write [1] [7], .delete [2], .write [3] [5]])
    = [([1], [7]), ([3], [5])] := by decide

end PyTrie.Props.C17
