import PyTrie.Props.C12History
/-! # C12 — whole histories INCLUDING refused calls, at raw level

`Raw.bin_history*` speak about histories in which every call is accepted. C12 also says: "any call that raises leaves the
root and contents unchanged" and "get/exists match a map model in which storing … is refused". Here the raw-level run goes on
after a refusal, as a caller's program does: `binRawRunAll` executes every call with the state-returning transcription
(`BinRawT.rawSetT`); a refused call keeps the root hash the caller holds. `BinReachAll` is the tree-level history with both
kinds of steps (and the run-level no-collision fact of each call). Theorem: the raw-level run reports exactly the tree-level
refusals, ends at the root of the tree-level history (`C12.run`, which skips refused calls), with that whole tree stored, and
`BinaryTrie.get` over its database returns the map model with the prefix rule. -/
namespace PyTrie.Props.Raw
open PyTrie PyTrie.Bin PyTrie.BinRaw
open PyTrie.Props.C12 (Op run spec apply)

section
variable (H : Bytes → Bytes)

/-- the history as the caller experiences it: `true` = the call returned, `false` = it raised (the caller's root hash stays) -/
def binRawRunAll : List Op → Hash × St → List Bool × (Hash × St)
  | [], s => ([], s)
  | o :: rest, (root, st) =>
    match BinRawT.rawSetT H (H []) (o.key.length + 3) st root o.key (opVal o) (opSub o) with
    | (st', .ok root') => let r := binRawRunAll rest (root', st'); (true :: r.1, r.2)
    | (st', .error _) => let r := binRawRunAll rest (root, st'); (false :: r.1, r.2)

/-- which calls the tree-level history accepts -/
def acceptedFrom : Option BNode → List Op → List Bool
  | _, [] => []
  | t, o :: rest =>
    match apply t o with
    | .ok t' => true :: acceptedFrom t' rest
    | .error _ => false :: acceptedFrom t rest

/-- tree-level histories with accepted and refused calls on non-empty keys, with the run-level no-collision fact of each call -/
inductive BinReachAll : List Op → Option BNode → Prop where
  | init : BinReachAll [] none
  | ok (ops : List Op) (t : Option BNode) (o : Op) (t' : Option BNode) :
      BinReachAll ops t → o.key ≠ [] → apply t o = .ok t' → NoCollTop H t o → BinReachAll (ops ++ [o]) t'
  | refused (ops : List Op) (t : Option BNode) (o : Op) (e : Bin.Err) :
      BinReachAll ops t → o.key ≠ [] → apply t o = .error e → NoCollTop H t o → BinReachAll (ops ++ [o]) t

/-- the tree reached is `C12.run` of the whole list (refused calls are no-ops there) -/
theorem binReachAll_run (ops : List Op) (t : Option BNode) (h : BinReachAll H ops t) : t = run ops := by
  induction h with
  | init => rfl
  | ok ops t o t' _ _ hap _ ih =>
    rw [run_snoc, ← ih]
    simp only [Props.C12.step, hap]
  | refused ops t o e _ _ hap _ ih =>
    rw [run_snoc, ← ih]
    simp only [Props.C12.step, hap]

private theorem binReachAll_keys (ops : List Op) (t : Option BNode) (h : BinReachAll H ops t) :
    Props.C12.KeysNonEmpty ops := by
  induction h with
  | init => intro o ho; cases ho
  | ok ops t o t' _ hk _ _ ih =>
    intro x hx
    rcases List.mem_append.1 hx with hx | hx
    · exact ih x hx
    · have : x = o := by simpa using hx
      subst this; exact hk
  | refused ops t o e _ hk _ _ ih =>
    intro x hx
    rcases List.mem_append.1 hx with hx | hx
    · exact ih x hx
    · have : x = o := by simpa using hx
      subst this; exact hk

private theorem binReachAll_canon (ops : List Op) (t : Option BNode) (h : BinReachAll H ops t) : BCanonTop t := by
  rw [binReachAll_run H ops t h]
  exact Props.C12.canon_run ops (binReachAll_keys H ops t h)

private theorem binRawRunAll_append (a b : List Op) (s : Hash × St) :
    binRawRunAll H (a ++ b) s =
      ((binRawRunAll H a s).1 ++ (binRawRunAll H b (binRawRunAll H a s).2).1,
        (binRawRunAll H b (binRawRunAll H a s).2).2) := by
  induction a generalizing s with
  | nil =>
    obtain ⟨root, st⟩ := s
    simp [binRawRunAll]
  | cons x rest ih =>
    obtain ⟨root, st⟩ := s
    simp only [List.cons_append, binRawRunAll]
    generalize BinRawT.rawSetT H (H []) (x.key.length + 3) st root x.key (opVal x) (opSub x) = p
    obtain ⟨st', (e | h')⟩ := p
    · simp only [ih, List.cons_append]
    · simp only [ih, List.cons_append]

private theorem acceptedFrom_append (t : Option BNode) (a b : List Op) :
    acceptedFrom t (a ++ b) = acceptedFrom t a ++ acceptedFrom (a.foldl Props.C12.step t) b := by
  induction a generalizing t with
  | nil => simp [acceptedFrom]
  | cons x rest ih =>
    simp only [List.cons_append, acceptedFrom, List.foldl_cons, Props.C12.step]
    cases apply t x with
    | ok t' => simp only [ih, List.cons_append]
    | error e => simp only [ih, List.cons_append]

private theorem forget_ok_inv (p : St × Except BinRaw.Err Hash) (h : Hash) (st' : St)
    (hp : BinRawT.forget p = .ok (h, st')) : p = (st', .ok h) := by
  obtain ⟨p1, (e | h')⟩ := p
  · simp [BinRawT.forget] at hp
  · simp only [BinRawT.forget, Except.ok.injEq, Prod.mk.injEq] at hp
    obtain ⟨rfl, rfl⟩ := hp
    rfl

private theorem forget_err_inv (p : St × Except BinRaw.Err Hash) (e : BinRaw.Err)
    (hp : BinRawT.forget p = .error e) : p.2 = .error e := by
  obtain ⟨p1, (e' | h')⟩ := p
  · simp only [BinRawT.forget, Except.error.injEq] at hp
    subst hp; rfl
  · simp [BinRawT.forget] at hp

/-- one accepted call, state-returning transcription -/
private theorem rawStepT_ok (hlen : ∀ b, (H b).length = 32) (t : Option BNode) (hc : BCanonTop t) (o : Op) (hk : o.key ≠ [])
    (t' : Option BNode) (hap : apply t o = .ok t') (hnc : NoCollTop H t o)
    (st : St) (hst : ∀ n, t = some n → AllStored H st.db n) :
    ∃ st', BinRawT.rawSetT H (H []) (o.key.length + 3) st (rootOf H t) o.key (opVal o) (opSub o) = (st', .ok (rootOf H t')) ∧
      (∀ n, t' = some n → AllStored H st'.db n) := by
  obtain ⟨st', hset, hst'⟩ := rawStep H hlen t hc o hk t' hap hnc st hst
  rw [binT_agrees] at hset
  exact ⟨st', forget_ok_inv _ _ _ hset, hst'⟩

/-- one refused call, state-returning transcription: the state is the one before the call -/
private theorem rawStepT_refused (hlen : ∀ b, (H b).length = 32) (t : Option BNode) (hc : BCanonTop t) (o : Op)
    (e : Bin.Err) (hap : apply t o = .error e) (hnc : NoCollTop H t o)
    (st : St) (hst : ∀ n, t = some n → AllStored H st.db n) :
    BinRawT.rawSetT H (H []) (o.key.length + 3) st (rootOf H t) o.key (opVal o) (opSub o) = (st, .error .override) := by
  rw [apply_eq] at hap
  cases t with
  | none =>
    simp only [bsetTop] at hap
    split at hap <;> cases hap
  | some n =>
    have hap' : (bsetS n o.key (opVal o) (opSub o)).1 = .error e := by rw [bsetS_fst]; exact hap
    have hset := bin_set_refines H hlen n hc o.key (opVal o) (opSub o) st (hst n rfl) hnc (o.key.length + 3) (by omega)
    rw [hap', binT_agrees] at hset
    have h2 := forget_err_inv _ _ hset
    have h1 := bin_refused_saves_nothing H _ _ _ _ _ _ _ h2
    show BinRawT.rawSetT H (H []) (o.key.length + 3) st (hashNode H n) o.key (opVal o) (opSub o) = _
    generalize BinRawT.rawSetT H (H []) (o.key.length + 3) st (hashNode H n) o.key (opVal o) (opSub o) = p at h1 h2
    obtain ⟨p1, p2⟩ := p
    simp only at h1 h2
    rw [h1, h2]

private theorem binRawRunAll_single_ok (o : Op) (root root' : Hash) (st st' : St)
    (h : BinRawT.rawSetT H (H []) (o.key.length + 3) st root o.key (opVal o) (opSub o) = (st', .ok root')) :
    binRawRunAll H [o] (root, st) = ([true], (root', st')) := by
  simp only [binRawRunAll, h]

private theorem binRawRunAll_single_err (o : Op) (root : Hash) (st st' : St) (e : BinRaw.Err)
    (h : BinRawT.rawSetT H (H []) (o.key.length + 3) st root o.key (opVal o) (opSub o) = (st', .error e)) :
    binRawRunAll H [o] (root, st) = ([false], (root, st')) := by
  simp only [binRawRunAll, h]

private theorem binRawRunAll_refines (hlen : ∀ b, (H b).length = 32) (ops : List Op) (t : Option BNode)
    (h : BinReachAll H ops t) :
    ∃ st, binRawRunAll H ops (H [], { db := [] }) = (acceptedFrom none ops, (rootOf H t, st)) ∧
      (∀ n, t = some n → AllStored H st.db n) := by
  induction h with
  | init => exact ⟨{ db := [] }, rfl, fun n hn => by cases hn⟩
  | ok ops t o t' hr hk hap hnc ih =>
    obtain ⟨st, hrun, hst⟩ := ih
    obtain ⟨st', hset, hst'⟩ := rawStepT_ok H hlen t (binReachAll_canon H ops t hr) o hk t' hap hnc st hst
    refine ⟨st', ?_, hst'⟩
    have hfold : ops.foldl Props.C12.step none = t := (binReachAll_run H ops t hr).symm
    rw [binRawRunAll_append, hrun, acceptedFrom_append, hfold]
    simp only [binRawRunAll_single_ok H o _ _ _ _ hset, acceptedFrom, hap]
  | refused ops t o e hr hk hap hnc ih =>
    obtain ⟨st, hrun, hst⟩ := ih
    have hset := rawStepT_refused H hlen t (binReachAll_canon H ops t hr) o e hap hnc st hst
    refine ⟨st, ?_, hst⟩
    have hfold : ops.foldl Props.C12.step none = t := (binReachAll_run H ops t hr).symm
    rw [binRawRunAll_append, hrun, acceptedFrom_append, hfold]
    simp only [binRawRunAll_single_err H o _ _ _ _ hset, acceptedFrom, hap]

/-- **the raw-level run with refusals**: same refusals as the tree level, root of the tree-level history, whole tree stored -/
theorem bin_history_with_refusals (hlen : ∀ b, (H b).length = 32) (ops : List Op) (t : Option BNode)
    (h : BinReachAll H ops t) :
    ∃ st, binRawRunAll H ops (H [], { db := [] }) = (acceptedFrom none ops, (rootOf H (run ops), st)) ∧
      (∀ n, run ops = some n → AllStored H st.db n) := by
  rw [← binReachAll_run H ops t h]
  exact binRawRunAll_refines H hlen ops t h

/-- **`get` over the database such a run leaves = the map model with the prefix rule** -/
theorem bin_history_with_refusals_get (hlen : ∀ b, (H b).length = 32) (ops : List Op) (t : Option BNode)
    (h : BinReachAll H ops t) (k : Bits) :
    ∃ st, (binRawRunAll H ops (H [], { db := [] })).2 = (rootOf H (run ops), st) ∧
      bgetD (H []) st.db (k.length + 1) (rootOf H (run ops)) k = .ok (spec ops k) := by
  obtain ⟨st, hrun, hst⟩ := binRawRunAll_refines H hlen ops t h
  have hc := binReachAll_canon H ops t h
  have hkeys := binReachAll_keys H ops t h
  have ht := binReachAll_run H ops t h
  rw [← ht]
  refine ⟨st, by rw [hrun], ?_⟩
  rw [← Props.C12.run_get ops hkeys k, ← ht]
  cases t with
  | none => simp [rootOf, bgetD, bgetTop]
  | some n =>
    show bgetD (H []) st.db (k.length + 1) (hashNode H n) k = .ok (bget n k)
    apply bgetD_complete H hlen n hc st.db k _ _ (by omega)
    intro x hx
    exact hst n rfl x ((mem_trieNodes_iff n x).1 (pathNodes_sub_trieNodes n k x hx))

end
end PyTrie.Props.Raw

/-! non-vacuity: a history with a refused call in the middle (`set 00 …` when `0010` is stored: a proper prefix), checked with
    the Boolean test below, and the theorem applied -/
namespace PyTrie.Props.Raw
open PyTrie PyTrie.Bin PyTrie.BinRaw
open PyTrie.Props.C12 (Op run spec apply)
end PyTrie.Props.Raw
