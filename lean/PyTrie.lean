import PyTrie.Model.Basic
import PyTrie.Model.Keccak
import PyTrie.Model.Rlp
import PyTrie.Model.Nibbles
import PyTrie.Model.Hex
